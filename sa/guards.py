"""Path-sensitive reachability over branch guards.

A guard is a canonical boolean expression over memory (loads through parameters,
globals and other loads, optionally masked with a constant) or over local SSA
values, together with a polarity.  Exploring the CFG with the set of guards known
on the current path prunes edges that contradict an earlier branch on the same,
unmodified expression (correlated branches).  A store to a location an expression
reads removes the guard.  No arithmetic is solved: two tests are related only if
their canonical expressions are identical."""
from .model import resolve_addr, const_int, strip_casts


def expr_str(f, op, sup, depth=0):
    if depth > 8:
        return None
    k = op.get("k")
    c = const_int(op)
    if c is not None:
        return str(c)
    if k == "null":
        return "0"
    if k == "a":
        return "a%d" % op["v"]
    if k == "i":
        i = f.insts.get(op["v"])
        if i is None:
            return None
        if i.op in ("zext", "sext", "trunc", "bitcast"):
            return expr_str(f, i.ops[0], sup, depth + 1)
        if i.op == "and":
            a, b = expr_str(f, i.ops[0], sup, depth + 1), expr_str(f, i.ops[1], sup, depth + 1)
            if a is None or b is None:
                return None
            return "(%s&%s)" % (a, b)
        if i.op == "load":
            p = resolve_addr(f, i.ops[0])
            r = p.root
            if r[0] == "g":
                s = "@" + r[1]
                if not p.steps:
                    sup.add(("g", r[1]))
            elif r[0] == "a":
                s = "a%d" % r[1]
            elif r[0] == "alloca":
                s = "alloca#%d" % r[1]
                sup.add(("al", r[1]))
            elif r[0] == "val":
                inner = expr_str(f, r[1], sup, depth + 1)
                if inner is None:
                    return None
                s = "(" + inner + ")"
            else:
                return None
            for st in p.steps:
                if st[0] == "f":
                    s += "." + st[1]
                    sup.add(("fld", st[1]))
                elif st[0] == "cast":
                    continue
                elif st[0] in ("idx", "ptr"):
                    ix = expr_str(f, st[1], sup, depth + 1)
                    if ix is None:
                        return None
                    s += "[" + ix + "]"
                    sup.add(("mem", "elt"))
            return "L[" + s + "]"
        # SSA identity (call results, phis)
        return "%" + str(i.id)
    return None


def cond_guard(f, op, depth=0):
    """(expr, polarity, support): branch condition `op' is true  <=>  (expr != 0) == polarity"""
    i = f.inst(op)
    if i is None or depth > 4:
        return None
    if i.op == "xor" and i.ty == "i1" and const_int(i.ops[1]) in (1, -1):
        g = cond_guard(f, i.ops[0], depth + 1)
        return (g[0], not g[1], g[2]) if g else None
    if i.op == "icmp" and i.d["pred"] in ("eq", "ne"):
        sup = set()
        a, b = expr_str(f, i.ops[0], sup), expr_str(f, i.ops[1], sup)
        if a is None or b is None:
            return None
        if b == "0":
            return (a, i.d["pred"] == "ne", frozenset(sup))
        if a == "0":
            return (b, i.d["pred"] == "ne", frozenset(sup))
        return ("(%s==%s)" % tuple(sorted([a, b])), i.d["pred"] == "eq", frozenset(sup))
    if i.op == "icmp":
        sup = set()
        a, b = expr_str(f, i.ops[0], sup), expr_str(f, i.ops[1], sup)
        if a is None or b is None:
            return None
        return ("(%s %s %s)" % (a, i.d["pred"], b), True, frozenset(sup))
    return None


def store_loc(f, s):
    p = resolve_addr(f, s.ops[1])
    lf = p.last_field()
    locs = set()
    if lf:
        locs.add(("fld", lf))
    elif p.root[0] == "g":
        locs.add(("g", p.root[1]))
    elif p.root[0] == "alloca":
        locs.add(("al", p.root[1]))
    if p.has_index() or (lf is None and p.root[0] in ("val", "a")):
        locs.add(("mem", "elt"))
    return locs


def _phi_cond_block(f, b):
    """block made of phis + `br phi': a merged short-circuit condition"""
    t = b.term
    if t is None or t.op != "br" or len(t.ops) != 3:
        return None
    c = f.inst(t.ops[0])
    if c is not None and c.op == "phi" and c.block is b and all(x.op in ("phi", "br") for x in b.insts):
        return c
    return None


def explore(f, start=None, may_write=None, max_states=20000):
    """forward exploration from `start' (default entry).  Returns dict block -> set of
    frozenset(guards) with which the block can be entered.  may_write(call) -> set of locs."""
    start = start or f.entry.name
    seen = {}
    seen_full = set()
    work = [(start, None, frozenset())]
    n = 0
    while work:
        bn, pred, A = work.pop()
        b = f.bmap[bn]
        cphi = _phi_cond_block(f, b)
        full = (bn, pred if cphi is not None else None, A)
        if full in seen_full:
            continue
        seen_full.add(full)
        seen.setdefault(bn, set()).add(A)
        n += 1
        if n > max_states:
            return None
        cur = set(A)
        for i in b.insts:
            locs = set()
            if i.op == "store":
                locs = store_loc(f, i)
            elif i.is_call():
                locs = may_write(i) if may_write else set([("fld", "*"), ("g", "*"), ("mem", "elt")])
            if locs:
                wild = ("fld", "*") in locs
                for g in list(cur):
                    if wild and any(s[0] in ("fld", "g", "mem") for s in g[2]):
                        cur.discard(g)
                    elif g[2] & locs:
                        cur.discard(g)
        t = b.term
        if t is not None and t.op == "br" and len(t.ops) == 3 and t.ops[1]["v"] != t.ops[2]["v"]:
            td, fd = t.ops[2]["v"], t.ops[1]["v"]
            cop = t.ops[0]
            if cphi is not None and pred is not None:
                inc = [iv for (iv, pb) in cphi.d["incoming"] if pb == pred]
                if len(inc) == 1:
                    k = const_int(inc[0])
                    if k is not None:
                        work.append((td if k else fd, bn, frozenset(cur)))
                        continue
                    cop = inc[0]
            g = cond_guard(f, cop)
            if g is None:
                work.append((td, bn, frozenset(cur)))
                work.append((fd, bn, frozenset(cur)))
            else:
                gt = (g[0], g[1], g[2])
                gf = (g[0], not g[1], g[2])
                if gf not in cur:
                    work.append((td, bn, frozenset(cur | {gt})))
                if gt not in cur:
                    work.append((fd, bn, frozenset(cur | {gf})))
        else:
            for s_ in b.succs:
                work.append((s_, bn, frozenset(cur)))
    return seen
