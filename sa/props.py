"""Which rule families decide which property (see DESIGN.md section 5)."""
from .rules import r1, r3, r5, r2e, r4, lexer, r9, r13, r11, r12, r14, c10, r8, c11, r6, r7, r15, r16, r17, r18, r19, r20, r21, r22, r24, r25, r26, r27, r28, c03


PROPS = {
    "C04": [lambda ctx, rep: r9.rule_R9(ctx, rep, only=["prune_to_minimal"]),
            lambda ctx, rep: r11.rule_R11_switch(ctx, rep, funcs=["prune_to_minimal", "traverse_pruned_translation"]),
            c03.rule_list_owner, r13.rule_R13_dedupe, r13.rule_collect, r13.rule_alt_relink, r13.rule_min_cost_domain, r13.rule_cost_marks, r13.rule_T4, r12.rule_R1c],
    "C05": [lambda ctx, rep: r9.rule_R9(ctx, rep, only=["yaep_parse"]), r9.rule_ambiguity_writers, r15.rule_R15, c03.rule_candidates,
            c10.rule_fixpoints, r21.rule_R21_dedupe, r22.rule_R22_context, r22.rule_R22_lookahead, r22.rule_R22_phases, r22.rule_R22_distance_class, r22.rule_R22_dedupe_pair],
    "C01": [r6.rule_R6_flags, r6.rule_R6_debug, r7.rule_T3, c10.rule_fixpoints, r15.rule_R15, r20.rule_R20, r21.rule_R21, r21.rule_R21_dedupe, r22.rule_R22_context, r22.rule_R22_lookahead, r22.rule_R22_boundaries, r22.rule_R22_cache_key, r22.rule_R22_bit_tests, r22.rule_R22_phases, r22.rule_R22_distance_class, r22.rule_R22_dedupe_pair, r22.rule_R22_replacement],
    "C03": [c03.rule_table_complete, c03.rule_origins_followed, c03.rule_alt_not_alt, c03.rule_candidates, c03.rule_reuse, c03.rule_copy_consistency, c03.rule_copy_slots, c03.rule_nil_at_pop, c03.rule_place_only, c03.rule_parent_state, c03.rule_parent_disp, c03.rule_slot_pairing, c03.rule_list_owner, r20.rule_R20_dag, r7.rule_translation_reading, r13.rule_births, r15.rule_R15, r21.rule_R21, r21.rule_R21_dedupe, c10.rule_fixpoints],
    "C02": [c03.rule_copy_consistency, c03.rule_copy_slots, c03.rule_nil_at_pop, c03.rule_place_only, c03.rule_parent_state, c03.rule_parent_disp, c03.rule_slot_pairing, c03.rule_list_owner, r7.rule_T1, r21.rule_R21, r7.rule_translation_reading, r13.rule_births, r4.rule_R4d, r13.rule_R13_marks, r13.rule_marks_final, r12.rule_R1c],
    "C06": [r7.rule_T3, r7.rule_first_ignored, r16.rule_back_cost, r5.rule_token_intake, r7.rule_T1, r15.rule_R15, r22.rule_R22_lookahead, c10.rule_fixpoints, r16.rule_total_loss],
    "C09": [r6.rule_R6_debug, r5.rule_setters, r12.rule_R12, r15.rule_R15, c10.rule_fixpoints, r20.rule_R20, r21.rule_R21_dedupe, r22.rule_R22_context, r22.rule_R22_lookahead, r22.rule_R22_cache_key, r22.rule_R22_bit_tests, r22.rule_R22_dedupe_pair, r22.rule_R22_replacement],
    "C10": [r20.rule_R20_symbols, c10.rule_code_table, c10.rule_fixpoints, r5.rule_undefined_typestate, r2e.rule_R2e, r5.rule_parse_entry],
    "C11": [c11.rule_implicit_codes, c11.rule_declaration_merge, c11.rule_line_count, c11.rule_keyword, c11.rule_lexer_discipline, c11.rule_costs_and_replay, lexer.rule_R4b, r4.rule_R4a, r4.rule_R4f, r14.rule_R14],
    "C12": [r14.rule_R14, r12.rule_R12, r4.rule_R4a, r4.rule_R4f, r4.rule_R4g, r4.rule_R4h, lexer.rule_R4b, r4.rule_R4c, r4.rule_R4d, r5.rule_setters, r3.rule_R3c, c10.rule_code_table, c10.rule_fixpoints, r16.rule_index_spaces, r16.rule_parallel_arrays, r16.rule_parallel_save, r16.rule_pl_capacity, r16.rule_total_loss, r16.rule_back_cost, r7.rule_first_ignored, r21.rule_R21, r4.rule_R4e, c03.rule_copy_consistency, r25.rule_R25_use],
    "C13": [r13.rule_births, r13.rule_T4, r13.rule_release_nonnull, r13.rule_collect, r25.rule_R25_use, r13.rule_compaction, r13.rule_cost_marks, r13.rule_R13_dedupe, r13.rule_R13_marks, r13.rule_marks_final, r13.rule_single_release_conditions, r13.rule_free_tree_null, r11.rule_R11_switch, r11.rule_R11_sweep, r5.rule_parse_entry, r12.rule_R1c, r7.rule_T1],
    "C14": [r12.rule_term_set_numbers, r12.rule_term_set_publish, r25.rule_R25, r25.rule_R25_cxx, r25.rule_R25_use, r25.rule_R25_use_cxx, r4.rule_R4e, r3.rule_R3e, r1.rule_R1a, r1.rule_R1b, r12.rule_R1c, r12.rule_R12, r2e.rule_R2e, r5.rule_undefined_typestate],
    "C15": [r5.rule_defaults, r5.rule_setters, r5.rule_parse_entry, r5.rule_token_intake, r5.rule_undefined_typestate, r3.rule_R3d, r1.rule_R1a, r4.rule_R4c, r4.rule_R4d, r4.rule_R4a, r4.rule_R4f, r4.rule_R4h],
    "C16": [r8.rule_R8, r8.rule_R8_probes, r8.rule_forwarding, r8.rule_R2f, r17.rule_R17, r17.rule_R17_cxx, r26.rule_R26, r14.rule_R14_cxx, r19.rule_R19, r19.rule_R19_cxx, r18.rule_R18, r18.rule_R18_cxx, r19.rule_R23, r19.rule_R23_cxx, r24.rule_R24_room, r24.rule_R24_room_cxx, r24.rule_R24_clear, r24.rule_R24_clear_cxx, r24.rule_R24_tomb, r24.rule_R24_tomb_cxx, r24.rule_R24_reserve, r24.rule_R24_reserve_cxx, r24.rule_R24_first_length, r24.rule_R24_first_length_cxx, r24.rule_R24_walk_free, r24.rule_R24_walk_free_cxx, r24.rule_R24_sole, r24.rule_R24_sole_cxx, r28.rule_R28, r28.rule_R28_cxx, r25.rule_R25, r25.rule_R25_cxx, r25.rule_R25_use, r25.rule_R25_use_cxx],
    "C18": [r27.rule_consing, r27.rule_consing_cxx, r27.rule_hash_covers_key, r27.rule_goto_cache, r27.rule_growth, r27.rule_growth_cxx, r27.rule_growth_storage, r27.rule_growth_storage_cxx, r28.rule_R28, r28.rule_R28_cxx, r15.rule_R15, r20.rule_R20, r26.rule_R26],
    "C19": [r8.rule_R8, r8.rule_R8_probes, r8.rule_R2f, r4.rule_R4d, r19.rule_R19, r19.rule_R19_cxx, r18.rule_R18, r18.rule_R18_cxx, r19.rule_R23, r19.rule_R23_cxx, r24.rule_R24_room, r24.rule_R24_room_cxx, r24.rule_R24_clear, r24.rule_R24_clear_cxx, r24.rule_R24_tomb, r24.rule_R24_tomb_cxx, r24.rule_R24_reserve, r24.rule_R24_reserve_cxx, r24.rule_R24_first_length, r24.rule_R24_first_length_cxx, r24.rule_R24_walk_free, r24.rule_R24_walk_free_cxx, r24.rule_R24_sole, r24.rule_R24_sole_cxx, r28.rule_R28, r28.rule_R28_cxx],
    "C17": [r3.rule_R3a, r3.rule_R3b, r3.rule_R3c, r3.rule_R3d, r3.rule_R3e, r3.rule_allocator_discipline, r1.rule_R1a, r1.rule_R1b, r12.rule_R1c, r12.rule_term_set_numbers, r12.rule_term_set_publish, r17.rule_R17, r17.rule_R17_cxx, r19.rule_R23, r19.rule_R23_cxx],
}


# rules that are independent of the C container idioms and are re-run on libyaep++ in the thorough tier
CXX_OK = set(["rule_R1a", "rule_R3a", "rule_R3b", "rule_R3c", "rule_R3d", "rule_defaults", "rule_setters", "rule_parse_entry", "rule_token_intake",
              "rule_undefined_typestate", "rule_R9", "rule_R12", "rule_R1c", "rule_births", "rule_T4", "rule_R13_marks", "rule_R11_switch", "rule_R11_sweep",
              "rule_R6_flags", "rule_T1", "rule_T3", "rule_fixpoints", "rule_implicit_codes", "rule_costs_and_replay", "rule_collect", "rule_compaction", "rule_release_nonnull",
              "rule_alt_not_alt", "rule_candidates", "rule_reuse", "rule_R21", "rule_index_spaces", "rule_pl_capacity"])
