"""Which rule families decide which property (see DESIGN.md section 5)."""
from .rules import r1, r3, r5, r2e, r4, lexer


PROPS = {
    "C12": [r4.rule_R4a, lexer.rule_R4b, r4.rule_R4c, r4.rule_R4d, r5.rule_setters, r3.rule_R3c],
    "C14": [r1.rule_R1a, r1.rule_R1b, r2e.rule_R2e, r5.rule_undefined_typestate],
    "C15": [r5.rule_defaults, r5.rule_setters, r5.rule_parse_entry, r5.rule_token_intake, r5.rule_undefined_typestate, r3.rule_R3d, r1.rule_R1a, r4.rule_R4c, r4.rule_R4d],
    "C17": [r3.rule_R3a, r3.rule_R3b, r3.rule_R3c, r3.rule_R3d],
}
