"""Which rule families decide which property (see DESIGN.md section 5)."""
from .rules import r1


PROPS = {
    "C14": [r1.rule_R1a, r1.rule_R1b],
}
