"""Sparse conditional constant propagation (Wegman/Zadeck) over the program model.
Used only to prune CFG edges that are infeasible for *every* input because the
branch condition folds to a constant (e.g. the lexer's n_errs flag).  Sound: the
lattice is optimistic only in the standard SCCP sense (unexecuted edges contribute
nothing), loads / calls / parameters are BOTTOM."""
from .model import const_int

TOP, BOT = "top", "bot"


def sccp(f):
    val = {}
    exec_edges = set()
    exec_blocks = set()
    flow = [(None, f.entry.name)]
    ssa = []

    def get(op):
        c = const_int(op)
        if c is not None:
            return c
        if op.get("k") == "null":
            return 0
        if op.get("k") == "i":
            return val.get(op["v"], TOP)
        return BOT

    def setv(i, v):
        old = val.get(i.id, TOP)
        if old == v or old == BOT:
            return
        if old != TOP and v != old:
            v = BOT
        val[i.id] = v
        for u in f.uses().get(i.id, []):
            ssa.append(u)

    def visit(i):
        if i.op == "phi":
            vs = set()
            for (iv, pb) in i.d["incoming"]:
                if (pb, i.block.name) not in exec_edges:
                    continue
                v = get(iv)
                if v == TOP:
                    continue
                vs.add(v)
            if not vs:
                return
            if BOT in vs or len(vs) > 1:
                setv(i, BOT)
            else:
                setv(i, vs.pop())
        elif i.op in ("sext", "zext", "trunc", "bitcast"):
            v = get(i.ops[0])
            if v == BOT:
                setv(i, BOT)
            elif v != TOP:
                setv(i, v)
        elif i.op in ("add", "sub", "mul", "and", "or", "xor"):
            a, b = get(i.ops[0]), get(i.ops[1])
            if a == BOT or b == BOT:
                setv(i, BOT)
            elif a != TOP and b != TOP:
                r = {"add": a + b, "sub": a - b, "mul": a * b, "and": a & b, "or": a | b, "xor": a ^ b}[i.op]
                if i.ty == "i1":
                    r &= 1
                setv(i, r)
        elif i.op == "icmp":
            a, b = get(i.ops[0]), get(i.ops[1])
            if a == BOT or b == BOT:
                setv(i, BOT)
            elif a != TOP and b != TOP:
                p = i.d["pred"]
                if p in ("eq", "ne", "slt", "sle", "sgt", "sge"):
                    setv(i, int({"eq": a == b, "ne": a != b, "slt": a < b, "sle": a <= b, "sgt": a > b, "sge": a >= b}[p]))
                else:
                    setv(i, BOT)
        elif i.op == "br":
            if len(i.ops) == 3:
                c = get(i.ops[0])
                td, fd = i.ops[2]["v"], i.ops[1]["v"]
                if c == BOT:
                    flow.append((i.block.name, td))
                    flow.append((i.block.name, fd))
                elif c != TOP:
                    flow.append((i.block.name, td if c else fd))
            else:
                flow.append((i.block.name, i.ops[0]["v"]))
        elif i.op == "switch":
            c = get(i.d["cond"])
            if c == BOT:
                for s in i.block.succs:
                    flow.append((i.block.name, s))
            elif c != TOP:
                dest = i.d["default"]
                for (v, d) in i.d["cases"]:
                    if v == c:
                        dest = d
                flow.append((i.block.name, dest))
        elif i.op in ("ret", "unreachable", "store"):
            pass
        else:
            if i.ty != "void":
                setv(i, BOT)
            if i.op == "invoke":
                for s in i.block.succs:
                    flow.append((i.block.name, s))

    while flow or ssa:
        while flow:
            (a, b) = flow.pop()
            if (a, b) in exec_edges:
                continue
            exec_edges.add((a, b))
            blk = f.bmap[b]
            first = b not in exec_blocks
            exec_blocks.add(b)
            for i in blk.insts:
                if i.op == "phi" or first:
                    visit(i)
            if first and blk.term is not None and blk.term.op not in ("br", "switch", "ret", "unreachable", "invoke") and blk.succs:
                for s in blk.succs:
                    flow.append((b, s))
        while ssa:
            i = ssa.pop()
            if i.block.name in exec_blocks:
                visit(i)
    return exec_edges, val
