"""Program model: a thin object layer over the JSON written by /verif/build/irfacts.

Everything here is a *static* view of the IR clang produced from /repo's current
sources: functions, blocks, instructions, resolved callees, struct field names.
No code of /repo is executed and no path condition is handed to a solver.
"""
import json


class Inst(object):
    __slots__ = ("fn", "block", "d", "id", "op", "idx")

    def __init__(self, fn, block, d, idx):
        self.fn = fn
        self.block = block
        self.d = d
        self.id = d["id"]
        self.op = d["op"]
        self.idx = idx  # index inside block

    # -- convenience ---------------------------------------------------------
    @property
    def ty(self):
        return self.d["ty"]

    @property
    def ops(self):
        return self.d.get("ops", [])

    @property
    def callee(self):
        return self.d.get("callee")

    @property
    def args(self):
        return self.d.get("args", [])

    @property
    def line(self):
        loc = self.d.get("loc")
        return loc[0] if loc else 0

    def where(self):
        loc = self.d.get("loc")
        f = self.d.get("file") or self.fn.file or "?"
        if loc:
            return "%s:%d:%d" % (f, loc[0], loc[1])
        return "%s:?" % f

    def __repr__(self):
        return "<%s#%d %s @%s>" % (self.fn.name, self.id, self.op, self.where())

    def is_call(self):
        return self.op in ("call", "invoke", "callbr")


class Block(object):
    __slots__ = ("fn", "name", "insts", "succs", "preds", "index", "all_insts", "cut")

    def __init__(self, fn, d, index):
        self.fn = fn
        self.name = d["name"]
        self.index = index
        self.insts = []
        self.all_insts = []
        self.succs = list(d["succs"])
        self.preds = []
        self.cut = None  # instruction after which the block was cut (noreturn call)

    def __repr__(self):
        return "<bb %s.%s>" % (self.fn.name, self.name)

    @property
    def term(self):
        return self.insts[-1] if self.insts else None


class Function(object):
    def __init__(self, model, name, d):
        self.model = model
        self.name = name
        self.d = d
        self.decl = d["decl"]
        self.file = d.get("file")
        self.line = d.get("line", 0)
        self.module = d.get("module")
        self.args = d.get("args", [])
        self.ret = d.get("ret")
        self.internal = d.get("internal", False)
        self.blocks = []
        self.bmap = {}
        self.insts = {}
        self.noreturn = bool(d.get("noreturn"))
        if not self.decl:
            for bi, bd in enumerate(d["blocks"]):
                b = Block(self, bd, bi)
                for ii, idd in enumerate(bd["insts"]):
                    ins = Inst(self, b, idd, ii)
                    b.insts.append(ins)
                    self.insts[ins.id] = ins
                b.all_insts = list(b.insts)
                # C++ unwind edges are not modelled (the library raises errors by longjmp only)
                if b.insts and b.insts[-1].op == "invoke" and b.insts[-1].d.get("normal"):
                    b.succs = [b.insts[-1].d["normal"]]
                self.blocks.append(b)
                self.bmap[b.name] = b
        self._dom = None
        self._pdom = None
        self._reach = None
        self._uses = None

    def __repr__(self):
        return "<fn %s>" % self.name

    @property
    def entry(self):
        return self.blocks[0]

    def where(self):
        return "%s:%d" % (self.file or "?", self.line)

    # -- CFG -------------------------------------------------------------------
    def finalize_cfg(self):
        """(Re)compute preds and reachability after noreturn cutting."""
        for b in self.blocks:
            b.preds = []
        for b in self.blocks:
            for s in b.succs:
                self.bmap[s].preds.append(b.name)
        seen = set()
        stack = [self.entry.name] if self.blocks else []
        while stack:
            n = stack.pop()
            if n in seen:
                continue
            seen.add(n)
            stack.extend(self.bmap[n].succs)
        self._reach = seen
        self._dom = None
        self._pdom = None
        self._loops = None

    def reachable(self, bname):
        return bname in self._reach

    def rblocks(self):
        return [b for b in self.blocks if b.name in self._reach]

    def all_insts(self):
        for b in self.rblocks():
            for i in b.insts:
                yield i

    def calls(self):
        for i in self.all_insts():
            if i.is_call():
                yield i

    def ret_blocks(self):
        return [b for b in self.rblocks() if b.term is not None and b.term.op == "ret"]

    # dominators over reachable blocks (iterative, Cooper/Harvey/Kennedy)
    def _compute_dom(self, succs_of, entry_names, nodes):
        # returns idom map name->name (entry -> None). Virtual root supported via entry_names list
        ROOT = "\0root"
        order = []
        seen = set()

        def dfs(start):
            st = [(start, iter(sorted(succs_of(start))))]
            seen.add(start)
            while st:
                n, it = st[-1]
                adv = False
                for s in it:
                    if s not in seen and s in nodes:
                        seen.add(s)
                        st.append((s, iter(sorted(succs_of(s)))))
                        adv = True
                        break
                if not adv:
                    order.append(n)
                    st.pop()

        for e in entry_names:
            if e not in seen:
                dfs(e)
        order.append(ROOT)
        rpo = list(reversed(order))
        num = {n: i for i, n in enumerate(rpo)}
        preds = {n: [] for n in rpo}
        for n in rpo:
            if n == ROOT:
                continue
            for s in succs_of(n):
                if s in num:
                    preds[s].append(n)
        for e in entry_names:
            preds[e].append(ROOT)
        idom = {ROOT: ROOT}

        def intersect(a, b):
            while a != b:
                while num[a] > num[b]:
                    a = idom[a]
                while num[b] > num[a]:
                    b = idom[b]
            return a

        changed = True
        while changed:
            changed = False
            for n in rpo[1:]:
                new = None
                for p in preds[n]:
                    if p in idom:
                        new = p if new is None else intersect(p, new)
                if new is not None and idom.get(n) != new:
                    idom[n] = new
                    changed = True
        res = {}
        for n in rpo[1:]:
            if n in idom:
                res[n] = None if idom[n] == ROOT else idom[n]
        return res

    def idom(self):
        if self._dom is None:
            nodes = self._reach
            self._dom = self._compute_dom(lambda n: self.bmap[n].succs, [self.entry.name], nodes)
        return self._dom

    def ipdom(self):
        """Immediate post-dominators w.r.t. normal exits (ret). Blocks that cannot
        reach a ret are absent."""
        if self._pdom is None:
            exits = [b.name for b in self.ret_blocks()]
            # nodes that can reach an exit
            can = set(exits)
            work = list(exits)
            while work:
                n = work.pop()
                for p in self.bmap[n].preds:
                    if p in self._reach and p not in can:
                        can.add(p)
                        work.append(p)
            self._pdom = self._compute_dom(lambda n: [p for p in self.bmap[n].preds if p in can], exits, can)
        return self._pdom

    def dominates(self, a, b):
        """block name a dominates block name b"""
        idom = self.idom()
        if b not in idom and b != self.entry.name:
            return False
        while b is not None:
            if a == b:
                return True
            b = idom.get(b)
        return False

    def postdominates(self, a, b):
        ip = self.ipdom()
        if b not in ip:
            return False
        while b is not None:
            if a == b:
                return True
            b = ip.get(b)
        return False

    def inst_dominates(self, i1, i2):
        if i1.block is i2.block:
            return i1.idx <= i2.idx
        return self.dominates(i1.block.name, i2.block.name)

    def inst_postdominates(self, i1, i2):
        """i1 post-dominates i2 (on normal paths to ret)"""
        if i1.block is i2.block:
            return i1.idx >= i2.idx
        return self.postdominates(i1.block.name, i2.block.name)

    def reachable_from(self, bname, avoid=()):
        """blocks reachable from bname (inclusive) without passing through `avoid`"""
        seen = set()
        st = [bname]
        while st:
            n = st.pop()
            if n in seen or n in avoid:
                continue
            seen.add(n)
            st.extend(self.bmap[n].succs)
        return seen

    def loops(self):
        """natural loops: list of dict(header, body(set of block names), latches)"""
        if getattr(self, "_loops", None) is not None:
            return self._loops
        by_header = {}
        for b in self.rblocks():
            for s in b.succs:
                if self.dominates(s, b.name):  # back edge b -> s
                    body = by_header.setdefault(s, {"header": s, "body": set([s]), "latches": []})
                    body["latches"].append(b.name)
                    st = [b.name]
                    while st:
                        n = st.pop()
                        if n in body["body"]:
                            continue
                        body["body"].add(n)
                        st.extend(p for p in self.bmap[n].preds if self.reachable(p))
        self._loops = list(by_header.values())
        return self._loops

    # -- def-use -----------------------------------------------------------------
    def uses(self):
        if self._uses is None:
            u = {}
            for i in self.all_insts():
                for o in iter_operands(i):
                    if o.get("k") == "i":
                        u.setdefault(o["v"], []).append(i)
            self._uses = u
        return self._uses

    def inst(self, op):
        if op.get("k") == "i":
            return self.insts.get(op["v"])
        return None


def iter_operands(i, deep=True):
    d = i.d
    lst = []
    if "ops" in d:
        lst.extend(d["ops"])
    if "args" in d:
        lst.extend(d["args"])
    if "callee_op" in d:
        lst.append(d["callee_op"])
    if "base" in d:
        lst.append(d["base"])
    if "path" in d:
        for st in d["path"]:
            if "idx" in st:
                lst.append(st["idx"])
            if "ptr" in st:
                lst.append(st["ptr"])
    if "incoming" in d:
        for v, _ in d["incoming"]:
            lst.append(v)
    if "cond" in d:
        lst.append(d["cond"])
    out = []
    while lst:
        o = lst.pop()
        out.append(o)
        if deep and o.get("k") == "ce":
            if "ops" in o:
                lst.extend(o["ops"])
            if "base" in o:
                lst.append(o["base"])
            for st in o.get("path", []):
                if "idx" in st:
                    lst.append(st["idx"])
                if "ptr" in st:
                    lst.append(st["ptr"])
    return out


class Model(object):
    def __init__(self, path=None, data=None, name=""):
        if data is None:
            with open(path) as f:
                data = json.load(f)
        self.name = name
        self.data = data
        self.structs = data["structs"]
        self._demangle_internal(data)
        self.globals = data["globals"]
        self.functions = {}
        for n, d in data["functions"].items():
            self.functions[n] = Function(self, n, d)
        self._infer_noreturn()
        self._callers = None

    @staticmethod
    def _demangle_internal(data):
        """C++ units: yaep.cpp compiles yaep.c as C++, so its (static) functions and variables carry
        mangled names.  They are renamed to their source names when that is unambiguous, so that the
        rule tables -- keyed by source identifiers -- apply to both libraries."""
        fmap, gmap = {}, {}
        cnt = {}
        for n, d in data["functions"].items():
            sn = d.get("srcname")
            if sn and n.startswith("_Z") and not n.startswith("_ZN") and not d.get("decl"):
                cnt[sn] = cnt.get(sn, 0) + 1
        for n, d in data["functions"].items():
            sn = d.get("srcname")
            if sn and n.startswith("_Z") and not n.startswith("_ZN") and not d.get("decl") and cnt.get(sn) == 1 and sn not in data["functions"]:
                fmap[n] = sn
        gc = {}
        for n, d in data["globals"].items():
            sn = d.get("srcname")
            if sn and n.startswith("_Z") and not n.startswith("_ZN"):
                gc[sn] = gc.get(sn, 0) + 1
        for n, d in data["globals"].items():
            sn = d.get("srcname")
            if sn and n.startswith("_Z") and not n.startswith("_ZN") and gc.get(sn) == 1 and sn not in data["globals"]:
                gmap[n] = sn
        if not fmap and not gmap:
            return

        def fix(o):
            if isinstance(o, dict):
                k = o.get("k")
                if k == "f" and o.get("v") in fmap:
                    o["v"] = fmap[o["v"]]
                elif k == "g" and o.get("v") in gmap:
                    o["v"] = gmap[o["v"]]
                if "callee" in o and o["callee"] in fmap:
                    o["callee"] = fmap[o["callee"]]
                for v in o.values():
                    if isinstance(v, (dict, list)):
                        fix(v)
            elif isinstance(o, list):
                for v in o:
                    if isinstance(v, (dict, list)):
                        fix(v)
        fix(data["functions"])
        fix(data["globals"])
        data["functions"] = dict((fmap.get(n, n), d) for n, d in data["functions"].items())
        data["globals"] = dict((gmap.get(n, n), d) for n, d in data["globals"].items())

    def fn(self, name):
        return self.functions.get(name)

    def defined(self):
        return [f for f in self.functions.values() if not f.decl]

    def _infer_noreturn(self):
        """A function cannot return if, after cutting every block behind a call to a
        function that cannot return, no `ret` is reachable from its entry.  Base:
        declarations the C library marks noreturn (longjmp, exit, abort,
        __assert_fail).  Least fixpoint, so only *provably* non-returning
        functions are cut (sound pruning, no heuristics)."""
        for f in self.defined():
            f.finalize_cfg()
        changed = True
        while changed:
            changed = False
            for f in self.defined():
                # cut blocks
                cut_any = False
                for b in f.blocks:
                    for k, i in enumerate(b.insts):
                        if i.is_call():
                            nr = bool(i.d.get("noreturn"))
                            c = i.callee
                            if c and c in self.functions and self.functions[c].noreturn:
                                nr = True
                            if nr and (k != len(b.insts) - 1 or b.succs):
                                b.cut = i
                                b.insts = b.insts[: k + 1]
                                b.succs = []
                                cut_any = True
                                break
                if cut_any:
                    f.finalize_cfg()
                if not f.noreturn and not f.ret_blocks():
                    f.noreturn = True
                    changed = True
                elif cut_any:
                    changed = True

    def callers(self):
        if self._callers is None:
            c = {}
            for f in self.defined():
                for i in f.calls():
                    if i.callee:
                        c.setdefault(i.callee, []).append(i)
            self._callers = c
        return self._callers

    def string_of(self, op):
        """If op denotes the address of a constant C string, return it."""
        if op.get("k") == "ce" and op.get("op") == "getelementptr":
            b = op.get("base")
            if b and b.get("k") == "g":
                g = self.globals.get(b["v"])
                if g is not None and "str" in g:
                    return g["str"]
        if op.get("k") == "g":
            g = self.globals.get(op["v"])
            if g is not None and "str" in g:
                return g["str"]
        return None


# -- value / pointer resolution helpers ------------------------------------------

def strip_casts(fn, op):
    """Follow bitcast/zext/sext/trunc/inttoptr-free chains back to the producing operand."""
    while True:
        if op.get("k") == "i":
            i = fn.insts.get(op["v"])
            if i is not None and i.op in ("bitcast",):
                op = i.ops[0]
                continue
        if op.get("k") == "ce" and op.get("op") == "bitcast":
            op = op["ops"][0]
            continue
        return op


def strip_int_casts(fn, op):
    while True:
        if op.get("k") == "i":
            i = fn.insts.get(op["v"])
            if i is not None and i.op in ("bitcast", "zext", "sext", "trunc"):
                op = i.ops[0]
                continue
        return op


class Path(object):
    """A resolved address: root + sequence of steps.
    root: ('g', name) | ('a', argno) | ('alloca', id) | ('val', operand) | ('null',)
    steps: ('f', 'struct.field') | ('idx', operand) | ('ptr', operand) | ('cast', ty)
    """
    __slots__ = ("root", "steps")

    def __init__(self, root, steps):
        self.root = root
        self.steps = steps

    def fields(self):
        return [s[1] for s in self.steps if s[0] == "f"]

    def last_field(self):
        for s in reversed(self.steps):
            if s[0] == "f":
                return s[1]
        return None

    def has_index(self):
        return any(s[0] in ("idx", "ptr") for s in self.steps)

    def __repr__(self):
        return "Path(%r,%r)" % (self.root, self.steps)


def resolve_addr(fn, op, depth=0):
    """Resolve a pointer operand to a Path by walking GEPs and bitcasts."""
    steps = []
    while depth < 64:
        depth += 1
        k = op.get("k")
        if k == "g":
            return Path(("g", op["v"]), list(reversed(steps)))
        if k == "a":
            return Path(("a", op["v"]), list(reversed(steps)))
        if k == "null":
            return Path(("null",), list(reversed(steps)))
        if k == "ce":
            if op.get("op") == "getelementptr":
                for st in reversed(op["path"]):
                    steps.append(_step(st))
                op = op["base"]
                continue
            if op.get("op") == "bitcast":
                steps.append(("cast", op.get("ty")))
                op = op["ops"][0]
                continue
            return Path(("val", op), list(reversed(steps)))
        if k == "i":
            i = fn.insts.get(op["v"])
            if i is None:
                return Path(("val", op), list(reversed(steps)))
            if i.op == "getelementptr":
                for st in reversed(i.d["path"]):
                    steps.append(_step(st))
                op = i.d["base"]
                continue
            if i.op == "bitcast":
                steps.append(("cast", i.ty))
                op = i.ops[0]
                continue
            if i.op == "alloca":
                return Path(("alloca", i.id), list(reversed(steps)))
            return Path(("val", op), list(reversed(steps)))
        return Path(("val", op), list(reversed(steps)))
    return Path(("val", op), list(reversed(steps)))


def _step(st):
    if "f" in st:
        return ("f", st["of"] + "." + st["f"])
    if "idx" in st:
        return ("idx", st["idx"])
    if "ptr" in st:
        return ("ptr", st["ptr"])
    return ("bad", None)


def loaded_from(fn, op):
    """If op is (a cast of) the result of a load, return the Path of the loaded address."""
    op = strip_casts(fn, op)
    if op.get("k") == "i":
        i = fn.insts.get(op["v"])
        if i is not None and i.op == "load":
            return resolve_addr(fn, i.ops[0])
    return None


def alloca_reaching_value(fn, load):
    """For a load from a (non-promoted) scalar alloca: the unique stored value that
    reaches it, found by walking back through the block and its single-predecessor
    chain; None if a call receives the alloca's address in between or the chain forks."""
    p = resolve_addr(fn, load.ops[0])
    if p.root[0] != "alloca" or p.steps:
        return None
    aid = p.root[1]
    b = load.block
    idx = load.idx
    seen = set()
    while True:
        for k in range(idx - 1, -1, -1):
            i = b.insts[k]
            if i.op == "store":
                q = resolve_addr(fn, i.ops[1])
                if q.root == ("alloca", aid) and not q.steps:
                    return i.ops[0]
            elif i.is_call():
                for a in i.args:
                    q = resolve_addr(fn, a)
                    if q.root == ("alloca", aid):
                        return None
        preds = [x for x in b.preds if fn.reachable(x)]
        if len(preds) != 1 or preds[0] in seen:
            return None
        seen.add(b.name)
        b = fn.bmap[preds[0]]
        idx = len(b.insts)


def const_int(op):
    if op.get("k") == "c":
        return op["v"]
    return None


def is_null(op):
    return op.get("k") == "null"


def op_key(op):
    k = op.get("k")
    if k in ("i", "a", "g", "f", "c"):
        return (k, op["v"])
    if k == "null":
        return ("null",)
    return (k, json.dumps(op, sort_keys=True))
