"""Run every quick check against a behaviour-preserving edit (a patch produced by a sub-agent or by hand).

  python3 selftest/benign.py <dir with patch.diff [+ notes.txt]> <name>      one patch
  python3 selftest/benign.py --all                                          every /verif/benign/*/patch.diff

The patch is applied to a scratch worktree of /repo's HEAD (never to /repo itself); all checks of
MANIFEST.json must exit 0 there without a VIOLATION / ANALYSIS-BROKEN line.  Writes
/verif/benign/<name>/{patch.diff,notes.txt,meta.json}."""
import json
import os
import shutil
import subprocess
import sys
import tempfile

VERIF = os.path.dirname(os.path.dirname(os.path.abspath(__file__)))


def sh(cmd, cwd=None, env=None):
    p = subprocess.run(cmd, shell=True, cwd=cwd, env=env, stdout=subprocess.PIPE, stderr=subprocess.STDOUT, universal_newlines=True)
    return p.returncode, p.stdout


def run_one(sdir, name):
    patch = os.path.join(sdir, "patch.diff")
    tmp = tempfile.mkdtemp(prefix="yaep-benign-")
    d = os.path.join(tmp, "wt")
    meta = {"name": name, "applies": True, "alarms": []}
    try:
        sh("git -C /repo worktree add --detach %s HEAD" % d)
        rc, out = sh("git apply %s" % patch, cwd=d)
        if rc:
            rc, out2 = sh("patch -p1 -F3 --no-backup-if-mismatch < %s" % patch, cwd=d)
            if rc:
                meta["applies"] = False
                print("%-44s patch does not apply" % name)
                return meta
        props = [c["property_id"] for c in json.load(open(os.path.join(VERIF, "MANIFEST.json")))["checks"]]
        env = dict(os.environ, VERIF_REPO=d, VERIF_EVIDENCE_DIR=os.path.join(tmp, "ev"))
        procs = [(pr, subprocess.Popen([sys.executable, "-m", "sa.check", pr], cwd=VERIF, env=env, stdout=subprocess.PIPE, stderr=subprocess.STDOUT, universal_newlines=True)) for pr in props]
        for pr, p in procs:
            out = p.communicate()[0]
            if p.returncode != 0:
                lines = [l for l in out.splitlines() if l.startswith(("VIOLATION", "  rule", "ANALYSIS"))]
                meta["alarms"].append({"check": pr, "exit": p.returncode, "output": lines[:6]})
        print("%-44s %s" % (name, "silent" if not meta["alarms"] else "ALARM in " + ",".join(a["check"] for a in meta["alarms"])))
        for a in meta["alarms"]:
            for l in a["output"][:3]:
                print("      " + l[:260])
    finally:
        sh("git -C /repo worktree remove --force %s" % d)
        shutil.rmtree(tmp, ignore_errors=True)
    dst = os.path.join(VERIF, "benign", name)
    os.makedirs(dst, exist_ok=True)
    for fn in ("patch.diff", "notes.txt"):
        src = os.path.join(sdir, fn)
        if os.path.exists(src) and os.path.abspath(src) != os.path.abspath(os.path.join(dst, fn)):
            shutil.copy(src, os.path.join(dst, fn))
    json.dump(meta, open(os.path.join(dst, "meta.json"), "w"), indent=1)
    return meta


def main(argv):
    if argv[1:2] == ["--all"]:
        root = os.path.join(VERIF, "benign")
        bad = 0
        names = sorted(os.listdir(root)) if os.path.isdir(root) else []
        for n in names:
            if os.path.exists(os.path.join(root, n, "patch.diff")):
                m = run_one(os.path.join(root, n), n)
                bad += 1 if (m["alarms"] or not m["applies"]) else 0
        print("%d behaviour-preserving edits, %d with an alarm or not applicable" % (len(names), bad))
        return 1 if bad else 0
    m = run_one(argv[1], argv[2])
    return 1 if m["alarms"] else 0


if __name__ == "__main__":
    sys.exit(main(sys.argv))
