"""Mutants of /repo/src for the checker self-test.  edits: (file, old, new) with `old'
occurring exactly once.  kind: break (check must fire, output must contain `expect')
or benign (check must stay silent)."""

MUTANTS = []


def M(id, props, kind, edits, expect=""):
    MUTANTS.append({"id": id, "props": props, "kind": kind, "edits": edits, "expect": expect})


# ---- R1 (C14/C15) ------------------------------------------------------------------------
M("r1a-drop-grammar-eq-g-in-parse", ["C14", "C15"], "break",
  [("yaep.c", "  grammar = g;\n  assert (grammar != NULL);\n  symbs_ptr = g->symbs_ptr;", "  assert (g != NULL);\n  symbs_ptr = g->symbs_ptr;")],
  "yaep_parse/grammar")
M("r1a-drop-symbs-ptr-in-read-grammar", ["C14"], "break",
  [("yaep.c", "  grammar = g;\n  symbs_ptr = g->symbs_ptr;\n  term_sets_ptr = g->term_sets_ptr;\n  rules_ptr = g->rules_ptr;\n  if ((code = setjmp",
    "  grammar = g;\n  term_sets_ptr = g->term_sets_ptr;\n  rules_ptr = g->rules_ptr;\n  if ((code = setjmp")],
  "yaep_read_grammar/symbs_ptr")
M("r1a-revert-F1-free-grammar", ["C14"], "break",
  [("yaep.c", "      /* The finalization functions below work on the current grammar.  */\n      grammar = g;\n", "")],
  "yaep_free_grammar/grammar")
M("r1a-revert-F2-parse-grammar", ["C14", "C15"], "break",
  [("sgramm.y", "  /* Errors found in the description are recorded in G.  */\n  grammar = g;\n", "")],
  "yaep_parse_grammar/grammar")
M("r1a-wrong-value-rules-ptr", ["C14"], "break",
  [("yaep.c", "  parse_alloc = alloc;", "  rules_ptr = (struct rules *) g->term_sets_ptr;\n  parse_alloc = alloc;")],
  "yaep_parse/rules_ptr/value")
M("r1b-drop-n-goto-reset-benign-statistic", ["C14"], "break",
  [("yaep.c", "  n_goto_successes = 0;\n  tok_init ();", "  tok_init ();")],
  "n_goto_successes")
M("r1b-drop-vlo-array-len-reset", ["C14"], "break",
  [("yaep.c", "#endif\n  vlo_array_len = 0;\n}", "#endif\n}")],
  "vlo_array_len")
M("r1b-drop-free-parse-state-reset", ["C14"], "break",
  [("yaep.c", "  free_parse_state = NULL;\n  OS_CREATE (parse_state_os", "  OS_CREATE (parse_state_os")],
  "free_parse_state")
M("r1b-revert-F5-pl-fin-in-free", ["C14"], "break",
  [("yaep.c", "      grammar = g;\n      rule_fin (g->rules_ptr);", "      grammar = g;\n      pl_fin ();\n      rule_fin (g->rules_ptr);")],
  "yaep_free_grammar/pl")
M("r1b-parse-state-tab-guard-mismatch", ["C14"], "break",
  [("yaep.c", "  OS_CREATE (parse_state_os, grammar->alloc, 0);\n  if (!grammar->one_parse_p)", "  OS_CREATE (parse_state_os, grammar->alloc, 0);\n  if (!grammar->one_parse_p && !grammar->cost_p)")],
  "parse_state_tab")
M("r1-benign-reorder-context-assignments", ["C14", "C15"], "benign",
  [("yaep.c", "  grammar = g;\n  assert (grammar != NULL);\n  symbs_ptr = g->symbs_ptr;\n  term_sets_ptr = g->term_sets_ptr;\n  rules_ptr = g->rules_ptr;",
    "  assert (g != NULL);\n  rules_ptr = g->rules_ptr;\n  term_sets_ptr = g->term_sets_ptr;\n  grammar = g;\n  symbs_ptr = grammar->symbs_ptr;")])
M("r1-benign-helper-for-context", ["C14", "C15", "C17"], "benign",
  [("yaep.c", "/* The following function parses input according read grammar.", "static void\nset_current_grammar (struct grammar *g)\n{\n  grammar = g;\n  symbs_ptr = g->symbs_ptr;\n  term_sets_ptr = g->term_sets_ptr;\n  rules_ptr = g->rules_ptr;\n}\n\n/* The following function parses input according read grammar."),
   ("yaep.c", "  grammar = g;\n  assert (grammar != NULL);\n  symbs_ptr = g->symbs_ptr;\n  term_sets_ptr = g->term_sets_ptr;\n  rules_ptr = g->rules_ptr;\n  read_token = read;", "  assert (g != NULL);\n  set_current_grammar (g);\n  read_token = read;")])

# ---- R3 (C17/C15) ------------------------------------------------------------------------
M("r3b-revert-F16", ["C17"], "break",
  [("yaep.c", "  yaep_alloc_seterr (allocator, error_func_ignore, NULL);\n", "")], "yaep_create_grammar/yaep_malloc")
M("r3c-revert-F19", ["C17"], "break",
  [("yaep.c", "      yaep_error (YAEP_NO_MEMORY, \"no memory\");\n    }\n\n  return result;", "      exit (1);\n    }\n\n  return result;")], "parse_alloc_default/exit")
M("r3d-revert-F18", ["C17", "C15"], "break",
  [("yaep.c", "	  g->error_code = YAEP_NO_MEMORY;\n", "")], "yaep_parse/ret-const-1")
M("r3a-throw-before-setjmp-in-parse", ["C17"], "break",
  [("yaep.c", "  pl_init ();\n  tok_init_p = parse_init_p = FALSE;\n", "  pl_init ();\n  tok_init ();\n  tok_init_p = parse_init_p = FALSE;\n")],
  "yaep_parse/propagates")
M("r3a-throwing-call-in-handler", ["C17"], "break",
  [("yaep.c", "      pl_fin ();\n      if (parse_init_p)\n	yaep_parse_fin ();", "      pl_fin ();\n      pl_create ();\n      if (parse_init_p)\n	yaep_parse_fin ();")],
  "yaep_parse/handler-throws")
M("r3d-error-code-not-stored", ["C17", "C15"], "break",
  [("yaep.c", "  grammar->error_code = code;\n  va_start", "  va_start")], "yaep_error/stores-code")
M("r3d-longjmp-other-value", ["C17", "C15"], "break",
  [("yaep.c", "  longjmp (error_longjump_buff, code);", "  longjmp (error_longjump_buff, 1);")], "yaep_error/stores-code")
M("r3d-read-grammar-returns-one", ["C17", "C15"], "break",
  [("yaep.c", "  if ((code = setjmp (error_longjump_buff)) != 0)\n    {\n      return code;\n    }", "  if ((code = setjmp (error_longjump_buff)) != 0)\n    {\n      return 1;\n    }")],
  "yaep_read_grammar/ret-const-1")
M("r3c-exit-on-invalid-token", ["C17", "C12"], "break",
  [("yaep.c", "    yaep_error (YAEP_INVALID_TOKEN_CODE, \"invalid token code %d\", code);", "    { fprintf (stderr, \"invalid token code %d\", code); exit (1); }")], "tok_add/exit")

# ---- R5 (C15) ----------------------------------------------------------------------------
M("r5-default-lookahead-2", ["C15"], "break", [("yaep.c", "  grammar->lookahead_level = 1;", "  grammar->lookahead_level = 2;")], "yaep_create_grammar/lookahead_level")
M("r5-default-recovery-match", ["C15"], "break", [("yaep.c", "#define DEFAULT_RECOVERY_TOKEN_MATCHES 3", "#define DEFAULT_RECOVERY_TOKEN_MATCHES 2")], "recovery_token_matches")
M("r5-default-cost-missing", ["C15"], "break", [("yaep.c", "  grammar->cost_p = 0;\n  grammar->error_recovery_p = 1;", "  grammar->error_recovery_p = 1;")], "yaep_create_grammar/cost_p")
M("r5-default-error-code-missing", ["C15"], "break", [("yaep.c", "  grammar->error_code = 0;\n  *grammar->error_message", "  *grammar->error_message")], "yaep_create_grammar/error_code")
M("r5-setter-returns-new", ["C15"], "break",
  [("yaep.c", "  old = grammar->cost_p;\n  grammar->cost_p = flag;\n  return old;", "  grammar->cost_p = flag;\n  old = grammar->cost_p;\n  return old;")], "yaep_set_cost_flag")
M("r5-setter-returns-param", ["C15"], "break",
  [("yaep.c", "  grammar->debug_level = level;\n  return old;", "  grammar->debug_level = level;\n  return level;")], "yaep_set_debug_level")
M("r5-setter-stores-other-field", ["C15"], "break",
  [("yaep.c", "  grammar->error_recovery_p = flag;", "  grammar->one_parse_p = flag;")], "yaep_set_error_recovery_flag")
M("r5-setter-negates", ["C15"], "break",
  [("yaep.c", "  grammar->one_parse_p = flag;", "  grammar->one_parse_p = !flag;")], "yaep_set_one_parse_flag")
M("r5-clamp-upper-3", ["C15", "C09"], "break",
  [("yaep.c", "(level < 0 ? 0 : level > 2 ? 2 : level)", "(level < 0 ? 0 : level > 3 ? 3 : level)")], "yaep_set_lookahead_level")
M("r5-clamp-lower-missing", ["C15", "C09"], "break",
  [("yaep.c", "(level < 0 ? 0 : level > 2 ? 2 : level)", "(level > 2 ? 2 : level)")], "yaep_set_lookahead_level")
M("r5-clamp-swapped", ["C15", "C09"], "break",
  [("yaep.c", "(level < 0 ? 0 : level > 2 ? 2 : level)", "(level < 0 ? 2 : level > 2 ? 0 : level)")], "yaep_set_lookahead_level")
M("r5-clamp-benign-if-form", ["C15", "C09"], "benign",
  [("yaep.c", "  grammar->lookahead_level = (level < 0 ? 0 : level > 2 ? 2 : level);", "  if (level <= -1)\n    level = 0;\n  else if (level >= 3)\n    level = 2;\n  grammar->lookahead_level = level;")])
M("r5-nomem-condition-weaker", ["C15"], "break",
  [("yaep.c", "  if (alloc == NULL)\n    {\n      if (free != NULL)\n	{", "  if (alloc == NULL)\n    {\n      if (free == NULL)\n	{")], "yaep_parse/nomem-return")
M("r5-default-free-with-user-alloc", ["C15", "C13"], "break",
  [("yaep.c", "      alloc = parse_alloc_default;\n      free = parse_free_default;\n    }", "      alloc = parse_alloc_default;\n    }\n  if (free == NULL)\n    free = parse_free_default;")], "yaep_parse/allocator-pair")
M("r5-undefined-gate-removed", ["C15", "C10"], "break",
  [("yaep.c", "  if (grammar->undefined_p)\n    yaep_error (YAEP_UNDEFINED_OR_BAD_GRAMMAR, \"undefined or bad grammar\");\n", "")], "yaep_parse/undefined-gate")
M("r5-undefined-gate-after-tokens", ["C15"], "break",
  [("yaep.c", "  if (grammar->undefined_p)\n    yaep_error (YAEP_UNDEFINED_OR_BAD_GRAMMAR, \"undefined or bad grammar\");\n  n_goto_successes = 0;\n  tok_init ();\n  tok_init_p = TRUE;\n  read_toks ();",
    "  n_goto_successes = 0;\n  tok_init ();\n  tok_init_p = TRUE;\n  read_toks ();\n  if (grammar->undefined_p)\n    yaep_error (YAEP_UNDEFINED_OR_BAD_GRAMMAR, \"undefined or bad grammar\");")], "yaep_parse/undefined-gate")
M("r5-token-loop-gt-zero", ["C15"], "break",
  [("yaep.c", "  while ((code = read_token (&attr)) >= 0)", "  while ((code = read_token (&attr)) > 0)")], "read_toks/loop")
M("r5-end-marker-attr", ["C15", "C06"], "break",
  [("yaep.c", "  tok_add (END_MARKER_CODE, NULL);", "  tok_add (END_MARKER_CODE, attr);")], "read_toks/loop")
M("r5-invalid-token-wrong-code", ["C15"], "break",
  [("yaep.c", "    yaep_error (YAEP_INVALID_TOKEN_CODE, \"invalid token code %d\", code);", "    yaep_error (YAEP_UNDEFINED_OR_BAD_GRAMMAR, \"invalid token code %d\", code);")], "tok_add/invalid-code")
M("r5-invalid-token-extra-condition", ["C15"], "break",
  [("yaep.c", "  if (tok.symb == NULL)\n    yaep_error (YAEP_INVALID_TOKEN_CODE", "  if (tok.symb == NULL && code > 255)\n    yaep_error (YAEP_INVALID_TOKEN_CODE")], "tok_add/invalid-code")

# ---- R5-undef / R2e (C14, C15, C10) ---------------------------------------------------------
M("undef-revert-F3-store", ["C14", "C15"], "break",
  [("yaep.c", "  yaep_empty_grammar ();\n  grammar->undefined_p = TRUE;\n", "  yaep_empty_grammar ();\n")], "yaep_read_grammar/failing-exit")
M("undef-revert-F3-parse-grammar", ["C14", "C15"], "break",
  [("sgramm.y", "      g->undefined_p = TRUE;\n", "")], "yaep_parse_grammar/failing-exit")
M("undef-revert-F4-conditional-empty", ["C14"], "break",
  [("yaep.c", "  yaep_empty_grammar ();\n  grammar->undefined_p = TRUE;\n", "  if (!grammar->undefined_p)\n    yaep_empty_grammar ();\n  grammar->undefined_p = TRUE;\n")], "yaep_read_grammar/empties-first")
M("undef-defined-too-early", ["C14", "C15"], "break",
  [("yaep.c", "  check_grammar (strict_p);\n#ifdef SYMB_CODE_TRANS_VECT", "  grammar->undefined_p = FALSE;\n  check_grammar (strict_p);\n#ifdef SYMB_CODE_TRANS_VECT")], "yaep_read_grammar/failing-exit")
M("undef-parse-marks-defined", ["C14", "C15"], "break",
  [("yaep.c", "  n_goto_successes = 0;\n  tok_init ();", "  n_goto_successes = 0;\n  grammar->undefined_p = FALSE;\n  tok_init ();")], "yaep_parse/unchanged")
M("undef-success-not-marked", ["C14", "C15"], "break",
  [("yaep.c", "  grammar->undefined_p = FALSE;\n  return 0;", "  return 0;")], "yaep_read_grammar/successful-exit")
M("r2e-empty-forgets-nterms", ["C14"], "break",
  [("yaep.c", "  OS_EMPTY (symbs->symbs_os);\n  symbs->n_nonterms = symbs->n_terms = 0;", "  OS_EMPTY (symbs->symbs_os);\n  symbs->n_nonterms = 0;")], "symb_init~symb_empty/n_terms")
M("r2e-empty-forgets-code-table", ["C14"], "break",
  [("yaep.c", "  empty_hash_table (symbs->repr_to_symb_tab);\n  empty_hash_table (symbs->code_to_symb_tab);", "  empty_hash_table (symbs->repr_to_symb_tab);")], "symb_init~symb_empty/code_to_symb_tab")
M("r2e-empty-forgets-rules-os", ["C14"], "break",
  [("yaep.c", "  OS_EMPTY (rules->rules_os);\n", "")], "rule_init~rule_empty/rules_os")
M("r2e-empty-forgets-first-rule", ["C14"], "break",
  [("yaep.c", "  rules->first_rule = rules->curr_rule = NULL;\n  rules->n_rules = rules->n_rhs_lens = 0;\n}\n\n/* Finalize work with rules. */", "  rules->curr_rule = NULL;\n  rules->n_rules = rules->n_rhs_lens = 0;\n}\n\n/* Finalize work with rules. */")], "rule_init~rule_empty/first_rule")
M("r2e-empty-grammar-skips-term-sets", ["C14"], "break",
  [("yaep.c", "      term_set_empty (grammar->term_sets_ptr);\n", "")], "yaep_empty_grammar/term_set_empty")
M("r2e-trans-vect-not-nulled", ["C14"], "break",
  [("yaep.c", "      yaep_free (grammar->alloc, symbs->symb_code_trans_vect);\n      symbs->symb_code_trans_vect = NULL;", "      yaep_free (grammar->alloc, symbs->symb_code_trans_vect);")], "symb_code_trans_vect")

# ---- R4 (C12) --------------------------------------------------------------------------------
M("r4a-revert-F9-vsprintf", ["C12"], "break",
  [("yaep.c", "  vsnprintf (grammar->error_message, YAEP_MAX_ERROR_MESSAGE_LENGTH, format,\n	     arguments);", "  vsprintf (grammar->error_message, format, arguments);")], "yaep_error#")
M("r4a-vsnprintf-too-large", ["C12"], "break",
  [("yaep.c", "  vsnprintf (grammar->error_message, YAEP_MAX_ERROR_MESSAGE_LENGTH, format,", "  vsnprintf (grammar->error_message, 2 * YAEP_MAX_ERROR_MESSAGE_LENGTH + 2, format,")], "yaep_error/sink")
M("r4a-lexer-sprintf-small-buffer", ["C12"], "break",
  [("sgramm.y", "		  char str[100];", "		  char str[20];")], "yaep_yylex/sprintf")
M("r4a-benign-shorter-message", ["C12"], "benign",
  [("yaep.c", "\"undefined or bad grammar\"", "\"bad grammar\"")])
M("r4b-revert-F10", ["C12"], "break",
  [("sgramm.y", "	  if (c == '\\0')\n	    /* Do not read behind the end of the description.  */\n	    yyerror (\"invalid character\");\n", "")], "yaep_yylex/read#")
M("r4b-comment-no-eof-check", ["C12", "C11"], "break",
  [("sgramm.y", "	      if (c == '\\0')\n		yyerror (\"unfinished comment\");\n", "")], "yaep_yylex/read#")
M("r4b-ident-no-unget", ["C12", "C11"], "break",
  [("sgramm.y", "	      while ((c = *curr_ch++) != '\\0' && (isalnum (c) || c == '_'))\n		OS_TOP_ADD_BYTE (stoks, c);\n	      curr_ch--;", "	      while ((c = *curr_ch++) != '\\0' && (isalnum (c) || c == '_'))\n		OS_TOP_ADD_BYTE (stoks, c);")], "yaep_yylex/")
M("r4b-number-no-unget", ["C12", "C11"], "break",
  [("sgramm.y", "		  yylval.num = yylval.num * 10 + (c - '0');\n		}\n	      curr_ch--;", "		  yylval.num = yylval.num * 10 + (c - '0');\n		}")], "yaep_yylex/")
M("r4b-benign-for-loop-form", ["C12"], "benign",
  [("sgramm.y", "	      while ((c = *curr_ch++) != '\\0' && isdigit (c))\n		{\n		  if (yylval.num > (INT_MAX - (c - '0')) / 10)\n		    /* The number does not fit into int.  */\n		    yyerror (\"too big number\");\n		  yylval.num = yylval.num * 10 + (c - '0');\n		}\n	      curr_ch--;",
    "	      for (;;)\n		{\n		  c = *curr_ch++;\n		  if (c == '\\0' || !isdigit (c))\n		    break;\n		  if (yylval.num > (INT_MAX - (c - '0')) / 10)\n		    yyerror (\"too big number\");\n		  yylval.num = yylval.num * 10 + (c - '0');\n		}\n	      curr_ch--;")])
M("r4d-revert-F8", ["C12", "C15"], "break",
  [("yaep.c", "      for (i = 0; i < max_code - min_code + 1; i++)\n	symbs_ptr->symb_code_trans_vect[i] = NULL;\n", "")], "symb_code_trans_vect")
M("r4d-F8-off-by-one", ["C12", "C15"], "break",
  [("yaep.c", "      for (i = 0; i < max_code - min_code + 1; i++)\n	symbs_ptr->symb_code_trans_vect[i] = NULL;", "      for (i = 0; i < max_code - min_code; i++)\n	symbs_ptr->symb_code_trans_vect[i] = NULL;")], "symb_code_trans_vect")
M("r4d-F8-benign-le-form", ["C12", "C15"], "benign",
  [("yaep.c", "      for (i = 0; i < max_code - min_code + 1; i++)\n	symbs_ptr->symb_code_trans_vect[i] = NULL;", "      for (i = 0; i <= max_code - min_code; i++)\n	symbs_ptr->symb_code_trans_vect[i] = NULL;")])
M("r4d-children-not-terminated", ["C12", "C02"], "break",
  [("yaep.c", "for (k = 0; k <= sit_rule->trans_len; k++)", "for (k = 0; k < sit_rule->trans_len; k++)")], "make_parse/anode.children")
M("r4d-children-alloc-too-small", ["C12", "C02"], "break",
  [("yaep.c", "* (sit_rule->trans_len + 1)));", "* (sit_rule->trans_len)));")], "make_parse/anode.children")
M("r4d-copy-anode-short", ["C12", "C02"], "break",
  [("yaep.c", "  for (i = 0; i <= rule->trans_len; i++)\n    {\n      struct yaep_tree_node *child, **child_place;", "  for (i = 0; i < rule->trans_len; i++)\n    {\n      struct yaep_tree_node *child, **child_place;")], "copy_anode/anode.children")
M("r4d-term-node-array-uninit", ["C12"], "break",
  [("yaep.c", "      for (i = 0; i < toks_len; i++)\n	term_node_array[i] = NULL;\n", "")], "make_parse/term_node_array")
M("r4d-order-uninit", ["C12"], "break",
  [("yaep.c", "  for (i = 0; i < rules_ptr->curr_rule->rhs_len; i++)\n    rules_ptr->curr_rule->order[i] = -1;\n", "")], "rule_new_stop/rule.order")
M("r4d-sit-row-short", ["C12"], "break",
  [("yaep.c", "	  for (i = 0; i < rules_ptr->n_rhs_lens + rules_ptr->n_rules; i++)\n	    (*ptr)[i] = NULL;\n	  ptr++;\n	}\n    }\n  if ((sit =",
    "	  for (i = 0; i < rules_ptr->n_rhs_lens; i++)\n	    (*ptr)[i] = NULL;\n	  ptr++;\n	}\n    }\n  if ((sit =")], "sit_create/sits_os")
M("r4d-hash-entries-short", ["C12", "C19"], "break",
  [("hashtab.c", "  for (entry_ptr = result->entries;\n       entry_ptr < result->entries + size; entry_ptr++)", "  for (entry_ptr = result->entries;\n       entry_ptr < result->entries + size - 1; entry_ptr++)")], "create_hash_table/hash_table_t.entries")
M("r4d-benign-hash-index-loop", ["C12", "C19"], "benign",
  [("hashtab.c", "  for (entry_ptr = result->entries;\n       entry_ptr < result->entries + size; entry_ptr++)\n    *entry_ptr = EMPTY_ENTRY;\n  return result;",
    "  {\n    size_t k;\n    for (k = 0; k < size; k++)\n      result->entries[k] = EMPTY_ENTRY;\n  }\n  (void) entry_ptr;\n  return result;")])
M("r4c-upper-guard-off-by-one", ["C12", "C15"], "break",
  [("yaep.c", "          || (code >= symbs_ptr->symb_code_trans_vect_end))", "          || (code > symbs_ptr->symb_code_trans_vect_end))")], "symb_find_by_code/")
M("r4c-lower-guard-missing", ["C12", "C15"], "break",
  [("yaep.c", "      if ((code < symbs_ptr->symb_code_trans_vect_start)\n          || (code >= symbs_ptr->symb_code_trans_vect_end))", "      if (code >= symbs_ptr->symb_code_trans_vect_end)")], "symb_find_by_code/")
M("r4c-end-off-by-one", ["C12", "C15"], "break",
  [("yaep.c", "      symbs_ptr->symb_code_trans_vect_end = max_code + 1;", "      symbs_ptr->symb_code_trans_vect_end = max_code + 2;")], "extent")
M("r4c-benign-positive-form", ["C12", "C15"], "benign",
  [("yaep.c", "      if ((code < symbs_ptr->symb_code_trans_vect_start)\n          || (code >= symbs_ptr->symb_code_trans_vect_end))\n        {\n          return NULL;\n        }\n      else\n        {\n          return symbs_ptr->symb_code_trans_vect\n            [code - symbs_ptr->symb_code_trans_vect_start];\n        }",
    "      if (code >= symbs_ptr->symb_code_trans_vect_start\n          && code <= symbs_ptr->symb_code_trans_vect_end - 1)\n        return symbs_ptr->symb_code_trans_vect\n          [code - symbs_ptr->symb_code_trans_vect_start];\n      return NULL;")])

# ---- C13 / C04 / C05 -----------------------------------------------------------------------------
M("r9-revert-F12", ["C04"], "break",
  [("yaep.c", "      else\n	/* The node has been already processed through another parent.\n	   The flag of cost INT_MAX is INT_MIN: add before negating.  */\n	*cost = -(node->val.anode.cost + 1);\n", "")], "prune_to_minimal/*cost")
M("r9-ambiguous-not-reset", ["C05"], "break",
  [("yaep.c", "  *root = NULL;\n  *ambiguous_p = FALSE;\n  pl_init ();", "  *root = NULL;\n  pl_init ();")], "yaep_parse/*ambiguous_p")
M("r13-revert-F13-insert", ["C13"], "break",
  [("yaep.c", "	  *entry = (hash_table_entry_t) *node_ptr;\n	  if ((*node_ptr)->type == YAEP_NIL)", "	  if ((*node_ptr)->type == YAEP_NIL)")], "find_minimal_translation/parse_free")
M("r13-name-not-deduped", ["C13"], "break",
  [("yaep.c", "		      *entry\n			= (hash_table_entry_t) (*node_ptr)->val.anode.name;\n", "")], "find_minimal_translation/parse_free")
M("r13-singletons-freed-in-pruning", ["C13"], "break",
  [("yaep.c", "	  if ((*node_ptr)->type == YAEP_NIL)\n	    /* It will be freed by make_parse.  */\n	    (*node_ptr)->val.nil.used = 0;\n	  else if ((*node_ptr)->type == YAEP_ERROR)\n	    (*node_ptr)->val.error.used = 0;\n	  else\n	    {", "	    {")], "singletons-excluded")
M("r13-free-reserved-instead", ["C13"], "break",
  [("yaep.c", "	  if (*entry != NULL)\n	    continue;\n	  /* The same node", "	  if (*entry == NULL)\n	    continue;\n	  /* The same node")], "find_minimal_translation/parse_free")
M("r13-nil-not-marked", ["C13", "C02"], "break",
  [("yaep.c", "		  place_translation (parent_anode->val.anode.children +\n				     parent_disp, empty_node);\n		  empty_node->val.nil.used = 1;", "		  place_translation (parent_anode->val.anode.children +\n				     parent_disp, empty_node);")], "make_parse/place-NIL")
M("r13-nil-child-not-marked", ["C13", "C02"], "break",
  [("yaep.c", "			anode->val.anode.children[i] = empty_node;\n			empty_node->val.nil.used = 1;", "			anode->val.anode.children[i] = empty_node;")], "make_parse/place-NIL")
M("r13-error-not-marked", ["C13"], "break",
  [("yaep.c", "		      node = error_node;\n		      error_node->val.error.used = 1;", "		      node = error_node;")], "make_parse/place-ERROR")
M("r13-free-singleton-unconditionally", ["C13"], "break",
  [("yaep.c", "      if (!empty_node->val.nil.used)\n	{\n	  parse_free (empty_node);\n	}", "      parse_free (empty_node);")], "make_parse/parse_free")
M("t4-name-from-grammar", ["C13"], "break",
  [("yaep.c", "		      node->val.anode.name = sit_rule->caller_anode;", "		      node->val.anode.name = sit_rule->anode;")], "store-anode.name")
M("t4-caller-anode-from-os", ["C13"], "break",
  [("yaep.c", "			  sit_rule->caller_anode\n			    = ((char *)\n			       (*parse_alloc) (strlen (sit_rule->anode) + 1));", "			  sit_rule->caller_anode\n			    = ((char *)\n			       yaep_malloc (grammar->alloc, strlen (sit_rule->anode) + 1));")], "store-caller_anode")
M("t4-node-from-library-heap", ["C13"], "break",
  [("yaep.c", "  alt = (struct yaep_tree_node *) (*parse_alloc) (sizeof\n						  (struct yaep_tree_node));", "  alt = (struct yaep_tree_node *) yaep_malloc (grammar->alloc, sizeof\n						  (struct yaep_tree_node));")], "node-cast")
M("r13-benign-helper-mark", ["C13"], "benign",
  [("yaep.c", "		  place_translation (parent_anode->val.anode.children +\n				     parent_disp, empty_node);\n		  empty_node->val.nil.used = 1;", "		  empty_node->val.nil.used = 1;\n		  place_translation (parent_anode->val.anode.children +\n				     parent_disp, empty_node);")])

# ---- R1c / R12 -----------------------------------------------------------------------------------
M("r12-revert-F7", ["C14", "C12"], "break",
  [("yaep.c", "      if (context < 0)\n	/* The set is already in the table of the grammar (it is not\n	   the first parse).  */\n	context = -context - 1;\n", "")], "build_start_set/term_set_insert")
M("r12-expand-no-normalise", ["C14", "C12"], "break",
  [("yaep.c", "		  if (context >= 0)\n		    context_set = term_set_create ();\n		  else\n		    context = -context - 1;", "		  if (context >= 0)\n		    context_set = term_set_create ();")], "expand_new_start_set/term_set_insert")
M("r12-benign-abs-form", ["C14", "C12"], "benign",
  [("yaep.c", "		  if (context >= 0)\n		    context_set = term_set_create ();\n		  else\n		    context = -context - 1;", "		  if (context < 0)\n		    context = -context - 1;\n		  else\n		    context_set = term_set_create ();")])
M("r1c-caller-anode-not-reset", ["C14", "C13"], "break",
  [("yaep.c", "  for (rule = rules_ptr->first_rule; rule != NULL; rule = rule->next)\n    rule->caller_anode = NULL;\n}", "}")], "rule.caller_anode")
M("r1c-one-parse-not-restored", ["C14"], "break",
  [("yaep.c", "  parse_state_fin ();\n  grammar->one_parse_p = saved_one_parse_p;", "  parse_state_fin ();")], "grammar.one_parse_p")
M("r1c-parse-writes-cost-flag", ["C14"], "break",
  [("yaep.c", "  if (grammar->cost_p)\n    /* We need all parses to choose the minimal one */\n    grammar->one_parse_p = FALSE;", "  if (grammar->cost_p)\n    {\n      /* We need all parses to choose the minimal one */\n      grammar->one_parse_p = FALSE;\n      grammar->lookahead_level = 1;\n    }")], "grammar.lookahead_level")

# ---- handler safety (R1 exceptional edges), R3e, R3f ----------------------------------------------
M("r3e-revert-F21", ["C17", "C14"], "break",
  [("yaep.c", "  volatile int tok_init_p, parse_init_p;", "  int tok_init_p, parse_init_p;")], "yaep_parse/")
M("r3e-sgrammar-flag-not-volatile", ["C17"], "break",
  [("sgramm.y", "  volatile int created_p = FALSE;", "  int created_p = FALSE;")], "set_sgrammar/created_p")
M("r2d-revert-F17", ["C17", "C14"], "break",
  [("sgramm.y", "      if (created_p)\n	free_sgrammar ();\n      return err_code;", "      free_sgrammar ();\n      return err_code;")], "yaep_parse_grammar/")
M("r2d-flag-set-too-early", ["C17", "C14"], "break",
  [("sgramm.y", "  OS_CREATE (strans, g->alloc, 0);\n  created_p = TRUE;", "  created_p = TRUE;\n  OS_CREATE (strans, g->alloc, 0);")], "yaep_parse_grammar/strans")
M("r2d-parse-flag-before-init", ["C17", "C14"], "break",
  [("yaep.c", "  yaep_parse_init (toks_len);\n  parse_init_p = TRUE;", "  parse_init_p = TRUE;\n  yaep_parse_init (toks_len);")], "yaep_parse/")
M("r2d-tok-fin-unguarded", ["C17", "C14"], "break",
  [("yaep.c", "      if (tok_init_p)\n	tok_fin ();\n      return code;", "      tok_fin ();\n      return code;")], "yaep_parse/toks_vlo")
M("r2d-create-dead-stores", ["C17", "C14"], "break",
  [("yaep.c", "  grammar->symbs_ptr = NULL;\n  grammar->term_sets_ptr = NULL;\n  grammar->rules_ptr = NULL;\n", "")], "yaep_create_grammar/grammar->")
M("r2d-pl-init-after-setjmp", ["C17", "C14"], "break",
  [("yaep.c", "  pl_init ();\n  tok_init_p = parse_init_p = FALSE;", "  tok_init_p = parse_init_p = FALSE;"),
   ("yaep.c", "  parse_init_p = TRUE;\n  pl_create ();", "  parse_init_p = TRUE;\n  pl_init ();\n  pl_create ();")], "yaep_parse/pl")
M("r2d-benign-flags-order", ["C17", "C14"], "benign",
  [("yaep.c", "  pl_init ();\n  tok_init_p = parse_init_p = FALSE;", "  tok_init_p = FALSE;\n  parse_init_p = FALSE;\n  pl_init ();")])
M("r3f-realloc-frees-on-failure", ["C17"], "break",
  [("allocate.c", "  result = allocator->realloc (ptr, size);\n  if ((result == NULL) && (size != 0))\n    allocator->alloc_error (allocator->userptr);",
    "  result = allocator->realloc (ptr, size);\n  if ((result == NULL) && (size != 0))\n    {\n      allocator->free (ptr);\n      allocator->alloc_error (allocator->userptr);\n    }")], "yaep_realloc/calls-free")

# ---- R14 pointer invalidation ------------------------------------------------------------------------
M("r14-sit-table-stale", ["C12"], "break",
  [("yaep.c", "      bound = (struct sit ***) VLO_BOUND (sit_table_vlo);\n      context_sit_table_ptr = sit_table + context;", "      bound = (struct sit ***) VLO_BOUND (sit_table_vlo);")], "sit_create/")
M("r14-core-symb-table-stale", ["C12"], "break",
  [("yaep.c", "      core_symb_table\n	= (struct core_symb_vect ***) VLO_BEGIN (core_symb_table_vlo);\n      core_symb_vect_ptr = core_symb_table + set_core->num;\n      bound = (struct core_symb_vect ***) VLO_BOUND (core_symb_table_vlo);",
    "      core_symb_table\n	= (struct core_symb_vect ***) VLO_BEGIN (core_symb_table_vlo);\n      bound = (struct core_symb_vect ***) VLO_BOUND (core_symb_table_vlo);")], "core_symb_vect_addr_get/")
M("r14-toks-cache-not-refreshed", ["C12"], "break",
  [("yaep.c", "  VLO_ADD_MEMORY (toks_vlo, &tok, sizeof (struct tok));\n  toks = (struct tok *) VLO_BEGIN (toks_vlo);", "  VLO_ADD_MEMORY (toks_vlo, &tok, sizeof (struct tok));")], "toks")

# ---- C10 ------------------------------------------------------------------------------------------
M("c10-negative-code-lt-minus1", ["C10"], "break", [("yaep.c", "      if (code < 0)\n	yaep_error (YAEP_NEGATIVE_TERM_CODE", "      if (code < -1)\n	yaep_error (YAEP_NEGATIVE_TERM_CODE")], "YAEP_NEGATIVE_TERM_CODE")
M("c10-negative-cost-le", ["C10"], "break", [("yaep.c", "if (anode != NULL && anode_cost < 0)", "if (anode != NULL && anode_cost <= 0)")], "YAEP_NEGATIVE_COST")
M("c10-drop-repeated-code-check", ["C10"], "break",
  [("yaep.c", "      if (symb_find_by_code (code) != NULL)\n	yaep_error (YAEP_REPEATED_TERM_CODE,\n		    \"repeated code %d in term `%s'\", code, name);\n", "")], "table/YAEP_REPEATED_TERM_CODE")
M("c10-revert-F20-rhs", ["C10"], "break",
  [("yaep.c", "	  else if (symb == grammar->axiom || symb == grammar->end_marker)\n	    yaep_error (YAEP_FIXED_NAME_USAGE,\n			\"do not use fixed name `%s'\", *rhs);\n", "")], "table/YAEP_FIXED_NAME_USAGE/5")
M("c10-F20-only-axiom", ["C10"], "break",
  [("yaep.c", "	  else if (symb == grammar->axiom || symb == grammar->end_marker)", "	  else if (symb == grammar->axiom)")], "YAEP_FIXED_NAME_USAGE")
M("c10-incorrect-translation-weaker", ["C10"], "break",
  [("yaep.c", "if (anode == NULL && transl != NULL && *transl >= 0 && transl[1] >= 0)", "if (anode == NULL && transl != NULL && *transl > 0 && transl[1] >= 0)")], "YAEP_INCORRECT_TRANSLATION")
M("c10-symbol-number-gt", ["C10"], "break",
  [("yaep.c", "	    if (el >= rule->rhs_len)", "	    if (el > rule->rhs_len)")], "YAEP_INCORRECT_SYMBOL_NUMBER")
M("c10-unaccessible-in-nonstrict", ["C10"], "break",
  [("yaep.c", "	  else if (!symb->access_p)\n	    yaep_error (YAEP_UNACCESSIBLE_NONTERM,", "	  else if (symb->access_p)\n	    yaep_error (YAEP_UNACCESSIBLE_NONTERM,")], "YAEP_UNACCESSIBLE_NONTERM")
M("c10-loop-check-dropped", ["C10"], "break",
  [("yaep.c", "  for (i = 0; (symb = nonterm_get (i)) != NULL; i++)\n    if (symb->u.nonterm.loop_p)\n      yaep_error\n	(YAEP_LOOP_NONTERM,\n	 \"nonterm `%s' can derive only itself (grammar with loops)\",\n	 symb->repr);\n", "")], "table/YAEP_LOOP_NONTERM")
M("c10-nonstrict-checks-every-nonterm", ["C10"], "break",
  [("yaep.c", "      symb = rules_ptr->first_rule->rhs[0];\n      if (!symb->derivation_p)", "      symb = rules_ptr->first_rule->rhs[0];\n      if (symb->derivation_p)")], "YAEP_NONTERM_DERIVATION")
M("c10-no-rules-check-dropped", ["C10"], "break",
  [("yaep.c", "  if (grammar->axiom == NULL)\n    yaep_error (YAEP_NO_RULES, \"grammar does not contains rules\");\n", "")], "table/YAEP_NO_RULES")
M("c10-term-lhs-dropped", ["C10"], "break",
  [("yaep.c", "      else if (symb->term_p)\n	yaep_error (YAEP_TERM_IN_RULE_LHS,\n		    \"term `%s' in the left hand side of rule\", lhs);\n      else if (symb == grammar->axiom)", "      else if (symb == grammar->axiom)")], "table/YAEP_TERM_IN_RULE_LHS")
M("c10-benign-reversed-comparison", ["C10"], "benign",
  [("yaep.c", "      if (code < 0)\n	yaep_error (YAEP_NEGATIVE_TERM_CODE", "      if (0 > code)\n	yaep_error (YAEP_NEGATIVE_TERM_CODE")])
M("c10-benign-le-minus1", ["C10"], "benign",
  [("yaep.c", "if (anode != NULL && anode_cost < 0)", "if (anode != NULL && anode_cost <= -1)")])
M("r10-flag-dropped-from-condition", ["C10"], "break",
  [("yaep.c", "  while (empty_changed_p || derivation_changed_p || accessibility_change_p);", "  while (empty_changed_p || derivation_changed_p);")], "accessibility_change_p")
M("r10-old-value-after-store", ["C10"], "break",
  [("yaep.c", "		    empty_changed_p |= symb->empty_p ^ empty_p;\n		    symb->empty_p = empty_p;", "		    symb->empty_p = empty_p;\n		    empty_changed_p |= symb->empty_p ^ empty_p;")], "old-value-of-empty_p")
M("r10-derivation-old-value-after-store", ["C10"], "break",
  [("yaep.c", "		    derivation_changed_p |= symb->derivation_p ^ derivation_p;\n		    symb->derivation_p = derivation_p;", "		    symb->derivation_p = derivation_p;\n		    derivation_changed_p |= symb->derivation_p ^ derivation_p;")], "old-value-of-derivation_p")
M("r10-context-fixpoint-overwrite", ["C01", "C09"], "break",
  [("yaep.c", "	      if (sit != new_sit)\n		{\n		  new_sits[i] = sit;\n		  changed_p = TRUE;\n		}", "	      changed_p = sit != new_sit;\n	      new_sits[i] = sit;")], "expand_new_start_set/changed_p-accumulates")
M("r10-context-fixpoint-or-benign", ["C01", "C09"], "benign",
  [("yaep.c", "	      if (sit != new_sit)\n		{\n		  new_sits[i] = sit;\n		  changed_p = TRUE;\n		}", "	      changed_p |= sit != new_sit;\n	      new_sits[i] = sit;")])
M("r14-sgramm-rhs-begin-before-expand", ["C11", "C12"], "break",
  [("sgramm.y", "	rule.rhs_len = OS_TOP_LENGTH (srhs) / sizeof (char *);\n	OS_TOP_EXPAND (srhs, sizeof (char *));\n	rule.rhs = (char **) OS_TOP_BEGIN (srhs);\n",
    "	rule.rhs = (char **) OS_TOP_BEGIN (srhs);\n	rule.rhs_len = OS_TOP_LENGTH (srhs) / sizeof (char *);\n	OS_TOP_EXPAND (srhs, sizeof (char *));\n")], "yaep_yyparse/@srhs")
M("r14-sgramm-rhs-len-after-expand-benign", ["C11", "C12"], "benign",
  [("sgramm.y", "	rule.rhs_len = OS_TOP_LENGTH (srhs) / sizeof (char *);\n	OS_TOP_EXPAND (srhs, sizeof (char *));\n	rule.rhs = (char **) OS_TOP_BEGIN (srhs);\n",
    "	OS_TOP_EXPAND (srhs, sizeof (char *));\n	rule.rhs_len = OS_TOP_LENGTH (srhs) / sizeof (char *) - 1;\n	rule.rhs = (char **) OS_TOP_BEGIN (srhs);\n")])
M("r16-pl-capacity-two-per-token", ["C12"], "break",
  [("yaep.c", "		 (sizeof (struct set *) + 2 * sizeof (int))\n		 * (toks_len + 1) * 2);\n  pl = (struct set **) mem;\n  pl_tok_nums = (int *) (pl + (toks_len + 1) * 2);\n  pl_orig_tok_nums = pl_tok_nums + (toks_len + 1) * 2;",
    "		 (sizeof (struct set *) + 2 * sizeof (int))\n		 * toks_len * 2);\n  pl = (struct set **) mem;\n  pl_tok_nums = (int *) (pl + toks_len * 2);\n  pl_orig_tok_nums = pl_tok_nums + toks_len * 2;")],
  "pl_create/capacity")
M("r16-parallel-array-overlaps-pl", ["C12"], "break",
  [("yaep.c", "  pl_tok_nums = (int *) (pl + (toks_len + 1) * 2);", "  pl_tok_nums = (int *) (pl + (toks_len + 1));")], "pl_create/capacity")
M("r16-pl-capacity-exact-benign", ["C12"], "benign",
  [("yaep.c", "		 (sizeof (struct set *) + 2 * sizeof (int))\n		 * (toks_len + 1) * 2);\n  pl = (struct set **) mem;\n  pl_tok_nums = (int *) (pl + (toks_len + 1) * 2);\n  pl_orig_tok_nums = pl_tok_nums + (toks_len + 1) * 2;",
    "		 (sizeof (struct set *) + 2 * sizeof (int))\n		 * (2 * toks_len + 1));\n  pl = (struct set **) mem;\n  pl_tok_nums = (int *) (pl + (2 * toks_len + 1));\n  pl_orig_tok_nums = pl_tok_nums + (2 * toks_len + 1);")])
M("r16-pl-capacity-larger-benign", ["C12"], "benign",
  [("yaep.c", "		 (sizeof (struct set *) + 2 * sizeof (int))\n		 * (toks_len + 1) * 2);", "		 (sizeof (struct set *) + 2 * sizeof (int))\n		 * (toks_len + 1) * 2 + 64);")])
M("c10-loop-check-only-strict", ["C10", "C12"], "break",
  [("yaep.c", "  for (i = 0; (symb = nonterm_get (i)) != NULL; i++)\n    if (symb->u.nonterm.loop_p)\n      yaep_error", "  if (strict_p)\n  for (i = 0; (symb = nonterm_get (i)) != NULL; i++)\n    if (symb->u.nonterm.loop_p)\n      yaep_error")],
  "modes/YAEP_LOOP_NONTERM")
M("r17-revert-F22-c", ["C17", "C16"], "break",
  [("yaep.c", "      VLO_EXPAND (vlo_array, sizeof (vlo_t));\n      VLO_SHORTEN (vlo_array, sizeof (vlo_t));\n      vlo_ptr = &((vlo_t *) VLO_BEGIN (vlo_array))[vlo_array_len];\n      VLO_CREATE (*vlo_ptr, grammar->alloc, 64);\n      VLO_EXPAND (vlo_array, sizeof (vlo_t));",
    "      VLO_EXPAND (vlo_array, sizeof (vlo_t));\n      vlo_ptr = &((vlo_t *) VLO_BEGIN (vlo_array))[vlo_array_len];\n      VLO_CREATE (*vlo_ptr, grammar->alloc, 64);")],
  "vlo_array_expand/slot-visible-before-created")
M("r17-revert-F22-cxx", ["C17", "C16"], "break",
  [("yaep.c", "      vlo_array->expand (sizeof (vlo_t *));\n      vlo_array->shorten (sizeof (vlo_t *));\n      vlo_ptr = &((vlo_t **) vlo_array->begin ())[vlo_array_len];\n      *vlo_ptr = new vlo (grammar->alloc, 64);\n      vlo_array->expand (sizeof (vlo_t *));",
    "      vlo_array->expand (sizeof (vlo_t *));\n      vlo_ptr = &((vlo_t **) vlo_array->begin ())[vlo_array_len];\n      *vlo_ptr = new vlo (grammar->alloc, 64);")],
  "[c++] vlo_array_expand/slot-visible-before-created")
M("r17-reserve-two-slots-benign", ["C17", "C16"], "benign",
  [("yaep.c", "      VLO_EXPAND (vlo_array, sizeof (vlo_t));\n      VLO_SHORTEN (vlo_array, sizeof (vlo_t));\n      vlo_ptr = &((vlo_t *) VLO_BEGIN (vlo_array))[vlo_array_len];",
    "      VLO_EXPAND (vlo_array, 2 * sizeof (vlo_t));\n      VLO_SHORTEN (vlo_array, sizeof (vlo_t));\n      VLO_SHORTEN (vlo_array, sizeof (vlo_t));\n      vlo_ptr = &((vlo_t *) VLO_BEGIN (vlo_array))[vlo_array_len];")])
M("r19-c-stale-entries-pointer", ["C19", "C16"], "break",
  [("hashtab.c", "  unsigned hash_value, secondary_hash_value;\n\n  assert (htab != NULL);\n  if (htab->size / 4 <= htab->number_of_elements / 3)\n    expand_hash_table (htab);",
    "  unsigned hash_value, secondary_hash_value;\n  hash_table_entry_t *entries = htab->entries;\n\n  assert (htab != NULL);\n  if (htab->size / 4 <= htab->number_of_elements / 3)\n    expand_hash_table (htab);"),
   ("hashtab.c", "      entry_ptr = htab->entries + hash_value;\n      if (*entry_ptr == EMPTY_ENTRY)\n	{\n	  if (reserve)", "      entry_ptr = entries + hash_value;\n      if (*entry_ptr == EMPTY_ENTRY)\n	{\n	  if (reserve)")],
  "find_hash_table_entry/entries")
M("r19-c-size-cached-after-expand-benign", ["C19", "C16"], "benign",
  [("hashtab.c", "  hash_value = (*htab->hash_function) (element);\n  secondary_hash_value = 1 + hash_value % (htab->size - 2);\n  hash_value %= htab->size;",
    "  {\n    size_t size = htab->size;\n    hash_value = (*htab->hash_function) (element);\n    secondary_hash_value = 1 + hash_value % (size - 2);\n    hash_value %= size;\n  }")])
M("r19-cxx-stale-size", ["C19", "C16"], "break",
  [("hashtab.cpp", "  unsigned hash_value, secondary_hash_value;\n\n  if (_size / 4 <= number_of_elements / 3)\n    expand_hash_table ();", "  unsigned hash_value, secondary_hash_value;\n  const size_t size = _size;\n\n  if (_size / 4 <= number_of_elements / 3)\n    expand_hash_table ();"),
   ("hashtab.cpp", "      if (hash_value >= _size)\n	hash_value -= _size;\n    }\n  return entry_ptr;", "      if (hash_value >= size)\n	hash_value -= size;\n    }\n  return entry_ptr;")],
  "find_entry")
M("r18-tailor-empty-gets-a-byte", ["C19", "C16"], "break",
  [("vlobject.c", "  if (new_vlo_start != vlo->vlo_start)\n    {\n      vlo->vlo_free += new_vlo_start - vlo->vlo_start;\n      vlo->vlo_start = new_vlo_start;\n    }\n  vlo->vlo_boundary = vlo->vlo_start + vlo_length;\n}\n\n/* The following function implements macro `VLO_ADD_STRING'",
    "  vlo->vlo_start = new_vlo_start;\n  vlo->vlo_free = vlo->vlo_boundary = vlo->vlo_start + vlo_length;\n}\n\n/* The following function implements macro `VLO_ADD_STRING'"),
   ("vlobject.cpp", "  if (new_vlo_start != vlo_start)\n    {\n      vlo_free += new_vlo_start - vlo_start;\n      vlo_start = new_vlo_start;\n    }\n  vlo_boundary = vlo_start + vlo_length;\n}\n\n/* The following function implements addition of string",
    "  vlo_start = new_vlo_start;\n  vlo_free = vlo_boundary = vlo_start + vlo_length;\n}\n\n/* The following function implements addition of string")],
  "_VLO_tailor_function/length-kept")
M("r18-tailor-unconditional-rebase-benign", ["C19", "C16"], "benign",
  [("vlobject.c", "  if (new_vlo_start != vlo->vlo_start)\n    {\n      vlo->vlo_free += new_vlo_start - vlo->vlo_start;\n      vlo->vlo_start = new_vlo_start;\n    }\n  vlo->vlo_boundary = vlo->vlo_start + vlo_length;\n}\n\n/* The following function implements macro `VLO_ADD_STRING'",
    "  vlo->vlo_free = new_vlo_start + (vlo->vlo_free - vlo->vlo_start);\n  vlo->vlo_start = new_vlo_start;\n  vlo->vlo_boundary = vlo->vlo_start + vlo_length;\n}\n\n/* The following function implements macro `VLO_ADD_STRING'"),
   ("vlobject.cpp", "  if (new_vlo_start != vlo_start)\n    {\n      vlo_free += new_vlo_start - vlo_start;\n      vlo_start = new_vlo_start;\n    }\n  vlo_boundary = vlo_start + vlo_length;\n}\n\n/* The following function implements addition of string",
    "  vlo_free = new_vlo_start + (vlo_free - vlo_start);\n  vlo_start = new_vlo_start;\n  vlo_boundary = vlo_start + vlo_length;\n}\n\n/* The following function implements addition of string")])
M("r18-os-move-loses-last-byte", ["C19", "C16"], "break",
  [("objstack.c", "  os->os_top_object_free = os->os_top_object_start + os_top_object_length;\n  os->os_boundary = os->os_top_object_start + segment_length;",
    "  os->os_top_object_free = os->os_top_object_start + os_top_object_length - 1;\n  os->os_boundary = os->os_top_object_start + segment_length;")],
  "_OS_expand_memory/length-kept")
M("c11-revert-F28-stale-kept-pointer", ["C11"], "break",
  [("sgramm.y", "	  prev = arr + j;\n	  arr[j++] = *term;", "	  prev = term;\n	  arr[j++] = *term;")], "set_sgrammar/kept-element")
M("c11-revert-F28-merge-condition", ["C11"], "break",
  [("sgramm.y", "      else if (prev->code == -1)\n", "      else if (prev->code != -1)\n")], "set_sgrammar/merge-condition")
M("c11-merge-condition-negative-benign", ["C11"], "benign",
  [("sgramm.y", "      else if (prev->code == -1)\n", "      else if (prev->code < 0)\n")])
M("c10-revert-F29-axiom-checked", ["C10"], "break",
  [("yaep.c", "      symb = rules_ptr->first_rule->rhs[0];\n      if (!symb->derivation_p)", "      symb = grammar->axiom;\n      if (!symb->derivation_p)")], "YAEP_NONTERM_DERIVATION")

# ---- C03 structural clauses --------------------------------------------------------------------
M("c03-alt-wraps-alt", ["C03"], "break",
  [("yaep.c", "  if ((*place)->type == YAEP_ALT)\n    alt->val.alt.next = *place;\n  else\n    {", "  {")], "place_translation/alt.node")
M("c03-candidates-break-always", ["C03"], "break",
  [("yaep.c", "	      *ambiguous_p = TRUE;\n	      if (grammar->one_parse_p)\n		break;", "	      *ambiguous_p = TRUE;\n	      break;")], "make_parse/early-exit")
M("c03-candidates-explicit-compare-benign", ["C03"], "benign",
  [("yaep.c", "	      *ambiguous_p = TRUE;\n	      if (grammar->one_parse_p)\n		break;", "	      *ambiguous_p = TRUE;\n	      if (grammar->one_parse_p != 0)\n		break;")])
M("c03-reuse-without-found", ["C03"], "break",
  [("yaep.c", "		  if (table_state == NULL || new_p)\n		    {", "		  if (table_state == NULL)\n		    {")], "make_parse/reuse-only-when-found")
M("c03-node-key-without-origin", ["C03", "C01"], "break",
  [("yaep.c", "  return (state1->rule == state2->rule && state1->orig == state2->orig\n	  && state1->pl_ind == state2->pl_ind);", "  return (state1->rule == state2->rule\n	  && state1->pl_ind == state2->pl_ind);")], "parse_state_eq/compares-key")
M("r20-cache-key-without-lookahead", ["C01", "C09"], "break",
  [("yaep.c", "  return set1 == set2 && term1 == term2 && lookahead1 == lookahead2;", "  return set1 == set2 && term1 == term2;"),
   ("yaep.c", "  int lookahead1 = ((struct set_term_lookahead *) s1)->lookahead;\n  int lookahead2 = ((struct set_term_lookahead *) s2)->lookahead;\n", "")], "set_term_lookahead_eq/compares-key")
M("r20-symbol-hash-uses-other-field", ["C10"], "break",
  [("yaep.c", "  assert (symb->term_p);\n  return symb->u.term.code;", "  assert (symb->term_p);\n  return symb->u.term.code + symb->num;")], "symb_code_hash/hashes-key-only")
M("r21-make-parse-start-bound-swapped", ["C01", "C03", "C12"], "break",
  [("yaep.c", "	  if (sit_ind < set_core->n_start_sits)\n#ifndef ABSOLUTE_DISTANCES\n	    sit_orig = pl_ind - set->dists[sit_ind];", "	  if (sit_ind < set_core->n_all_dists)\n#ifndef ABSOLUTE_DISTANCES\n	    sit_orig = pl_ind - set->dists[sit_ind];")],
  "make_parse/dists")
M("r21-build-new-set-off-by-one", ["C01", "C03", "C12"], "break",
  [("yaep.c", "      else if (sit_ind < set_core->n_start_sits)\n	dist = set->dists[sit_ind];", "      else if (sit_ind <= set_core->n_start_sits)\n	dist = set->dists[sit_ind];")],
  "build_new_set/dists")
M("r21-negated-bound-benign", ["C01", "C03", "C12"], "benign",
  [("yaep.c", "      if (sit_ind >= set_core->n_all_dists)\n#ifdef TRANSITIVE_TRANSITION", "      if (!(sit_ind < set_core->n_all_dists))\n#ifdef TRANSITIVE_TRANSITION")])
M("t4-revert-F30-null-to-parse-free", ["C13"], "break",
  [("yaep.c", "      if (node->val._anode_name.name != NULL)\n	parse_free (node->val._anode_name.name);", "      parse_free (node->val._anode_name.name);")], "free_tree_sweep/release")
M("r11-sweep-name-never-released", ["C13"], "break",
  [("yaep.c", "      if (node->val._anode_name.name != NULL)\n	parse_free (node->val._anode_name.name);", "      ;")], "free_tree_sweep/YAEP_ANODE/name")
M("r10-loop-test-wrong-index", ["C10", "C12"], "break",
  [("yaep.c", "	    else if (!rule->rhs[j]->empty_p)\n	      break;\n	  if (j >= rule->rhs_len)\n	    symb->u.nonterm.loop_p = 1;", "	    else if (!rule->rhs[i]->empty_p)\n	      break;\n	  if (j >= rule->rhs_len)\n	    symb->u.nonterm.loop_p = 1;")],
  "set_loop_p/exit-depends-on-element")
M("r13-collect-after-rewrite", ["C13", "C04"], "break",
  [("yaep.c", "	  if (parse_free != NULL)\n	    VLO_ADD_MEMORY (tnodes_vlo, &alt, sizeof (alt));\n	  next_alt = alt->val.alt.next;\n	  alt->val.alt.node = prune_to_minimal (alt->val.alt.node, cost);",
    "	  next_alt = alt->val.alt.next;\n	  alt->val.alt.node = prune_to_minimal (alt->val.alt.node, cost);\n	  if (parse_free != NULL && min_cost <= *cost && alt != node)\n	    VLO_ADD_MEMORY (tnodes_vlo, &alt, sizeof (alt));")],
  "prune_to_minimal/alt.node")
M("r13-collect-after-next-benign", ["C13", "C04"], "benign",
  [("yaep.c", "	  if (parse_free != NULL)\n	    VLO_ADD_MEMORY (tnodes_vlo, &alt, sizeof (alt));\n	  next_alt = alt->val.alt.next;\n", "	  next_alt = alt->val.alt.next;\n	  if (parse_free != NULL)\n	    VLO_ADD_MEMORY (tnodes_vlo, &alt, sizeof (alt));\n")])
M("r11-move-keeps-old-slot", ["C13"], "break",
  [("yaep.c", "		  node->val.anode.children[freePos] =\n		    node->val.anode.children[pos];\n		  node->val.anode.children[pos] = NULL;", "		  node->val.anode.children[freePos] =\n		    node->val.anode.children[pos];")],
  "free_tree_reduce/child-move")
M("r21-revert-F31-initial-sit-dedupe", ["C01", "C09"], "break",
  [("yaep.c", "  for (i = new_core->n_all_dists; i < new_core->n_sits; i++)\n    if (new_sits[i] == sit)\n      return;", "  for (i = new_n_start_sits; i < new_core->n_sits; i++)\n    if (new_sits[i] == sit)\n      return;")],
  "set_new_add_initial_sit/duplicate-test")
M("r21-nonstart-dedupe-ignores-parent", ["C01", "C09"], "break",
  [("yaep.c", "    if (new_sits[i] == sit && new_core->parent_indexes[i] == parent)\n      return;", "    if (new_sits[i] == sit)\n      return;")],
  "set_add_new_nonstart_sit/duplicate-test")
M("r22-derived-sit-context-zero", ["C01", "C09"], "break",
  [("yaep.c", "    set_add_new_nonstart_sit (sit_create (rule, i + 1, context), parent);", "    set_add_new_nonstart_sit (sit_create (rule, i + 1, 0), parent);")],
  "add_derived_nonstart_sits/sit_create")
M("r22-derived-sit-context-inline-benign", ["C01", "C09"], "benign",
  [("yaep.c", "    set_add_new_nonstart_sit (sit_create (rule, i + 1, context), parent);", "    set_add_new_nonstart_sit (sit_create (sit->rule, i + 1, sit->context), parent);")])
M("r22-error-lookahead-of-old-situation", ["C01", "C09", "C06", "C07"], "break",
  [("yaep.c", "	  && !term_set_test (new_sit->lookahead, grammar->term_error_num))\n	continue;\n#ifndef ABSOLUTE_DISTANCES\n      dist = 0;\n#else\n      dist = pl_curr;",
    "	  && !term_set_test (sit->lookahead, grammar->term_error_num))\n	continue;\n#ifndef ABSOLUTE_DISTANCES\n      dist = 0;\n#else\n      dist = pl_curr;")],
  "build_new_set/error-lookahead")
M("r22-first-predicted-excluded", ["C01"], "break",
  [("yaep.c", "	  if (symb->empty_p && i >= new_core->n_all_dists)", "	  if (symb->empty_p && i > new_core->n_all_dists)")], "expand_new_start_set/bound-compare")
M("r10-follow-tail-test-outer-counter", ["C01", "C06", "C09", "C10"], "break",
  [("yaep.c", "		    if (k == rhs_len)\n		      changed_p |= term_set_or (rhs_symb->u.nonterm.follow,", "		    if (j == rhs_len - 1)\n		      changed_p |= term_set_or (rhs_symb->u.nonterm.follow,")],
  "create_first_follow_sets/scan-completed-test")
M("r10-follow-tail-test-ge-benign", ["C01", "C06", "C09", "C10"], "benign",
  [("yaep.c", "		    if (k == rhs_len)\n		      changed_p |= term_set_or (rhs_symb->u.nonterm.follow,", "		    if (k >= rhs_len)\n		      changed_p |= term_set_or (rhs_symb->u.nonterm.follow,")])
M("r4e-sit-table-fixed-chunk", ["C14", "C12"], "break",
  [("yaep.c", "      diff\n	= (char *) context_sit_table_ptr - (char *) VLO_BOUND (sit_table_vlo);\n      diff += sizeof (struct sit **);\n      if (grammar->lookahead_level > 1 && diff == sizeof (struct sit **))\n	diff *= 10;",
    "      diff = sizeof (struct sit **);\n      if (grammar->lookahead_level > 1)\n	diff *= 10;")],
  "sit_create/grow-sit_table_vlo")
M("r4e-core-symb-table-one-row", ["C14", "C12"], "break",
  [("yaep.c", "      diff = ((char *) core_symb_vect_ptr\n	      - (char *) VLO_BOUND (core_symb_table_vlo));\n#else", "      diff = 0;\n#else")],
  "core_symb_vect_addr_get/grow-core_symb_table_vlo")
M("r4e-sit-table-more-rows-benign", ["C14", "C12"], "benign",
  [("yaep.c", "      diff += sizeof (struct sit **);\n      if (grammar->lookahead_level > 1 && diff == sizeof (struct sit **))\n	diff *= 10;", "      diff += 4 * sizeof (struct sit **);")])
M("r1c-caller-anode-reset-at-the-end", ["C14", "C17", "C13"], "break",
  [("yaep.c", "  for (rule = rules_ptr->first_rule; rule != NULL; rule = rule->next)\n    rule->caller_anode = NULL;\n}", "}"),
   ("yaep.c", "  parse_state_fin ();\n  grammar->one_parse_p = saved_one_parse_p;", "  parse_state_fin ();\n  grammar->one_parse_p = saved_one_parse_p;\n  for (rule = rules_ptr->first_rule; rule != NULL; rule = rule->next)\n    rule->caller_anode = NULL;")],
  "yaep_parse/writes/rule.caller_anode")
M("r23-hash-size-before-alloc", ["C17", "C19", "C16"], "break",
  [("hashtab.c", "  new_htab =\n    create_hash_table (htab->alloc, htab->number_of_elements * 2,", "  htab->searches++;\n  new_htab =\n    create_hash_table (htab->alloc, htab->number_of_elements * 2,")],
  "expand_hash_table/searches")
M("r16-revert-F32-conditional-total-loss-rule", ["C12", "C06", "C07"], "break",
  [("yaep.c", "  rule = rule_new_start (grammar->axiom, NULL, 0);\n  rule_new_symb_add (grammar->term_error);\n  rule_new_symb_add (grammar->end_marker);\n  rule_new_stop ();\n  rule->trans_len = 0;\n  check_grammar (strict_p);",
    "  for (rule = start->u.nonterm.rules; rule != NULL; rule = rule->lhs_next)\n    if (rule->rhs[0] == grammar->term_error)\n      break;\n  if (rule == NULL)\n    {\n  rule = rule_new_start (grammar->axiom, NULL, 0);\n  rule_new_symb_add (grammar->term_error);\n  rule_new_symb_add (grammar->end_marker);\n  rule_new_stop ();\n  rule->trans_len = 0;\n    }\n  check_grammar (strict_p);")],
  "yaep_read_grammar/total-loss-rule")
M("c11-scanner-sets-lhs", ["C11"], "break",
  [("sgramm.y", "	      if (c != ':')\n		curr_ch--;\n	      return (c == ':' ? SEM_IDENT : IDENT);", "	      if (c != ':')\n		curr_ch--;\n	      else\n		slhs = (char *) yylval.ref;\n	      return (c == ':' ? SEM_IDENT : IDENT);")],
  "yylex/writes-own-state-only")
M("c11-number-octal-digits", ["C11"], "break",
  [("sgramm.y", "		yylval.num = yylval.num * 10 + (c - '0');", "		yylval.num = yylval.num * 8 + (c - '0');")], "yylex/numbers-base-10")
M("r24-clear-stops-after-live-count", ["C19", "C16"], "break",
  [("hashtab.c", "  for (entry_ptr = htab->entries;\n       entry_ptr < htab->entries + htab->size; entry_ptr++)\n    *entry_ptr = EMPTY_ENTRY;\n}",
    "  {\n    size_t n = htab->size / 2;\n  for (entry_ptr = htab->entries;\n       n != 0 && entry_ptr < htab->entries + htab->size; entry_ptr++)\n    if (*entry_ptr != EMPTY_ENTRY)\n      {\n	*entry_ptr = EMPTY_ENTRY;\n	n--;\n      }\n  }\n}"),
   ("hashtab.cpp", "  for (entry_ptr = entries; entry_ptr < entries + _size; entry_ptr++)\n    *entry_ptr = EMPTY_ENTRY;\n}",
    "  {\n    size_t n = _size / 2;\n  for (entry_ptr = entries; n != 0 && entry_ptr < entries + _size; entry_ptr++)\n    if (*entry_ptr != EMPTY_ENTRY)\n      {\n	*entry_ptr = EMPTY_ENTRY;\n	n--;\n      }\n  }\n}")],
  "whole-array")
M("r24-clear-index-loop-benign", ["C19", "C16"], "benign",
  [("hashtab.c", "  for (entry_ptr = htab->entries;\n       entry_ptr < htab->entries + htab->size; entry_ptr++)\n    *entry_ptr = EMPTY_ENTRY;\n}",
    "  {\n    size_t i;\n    for (i = 0; i < htab->size; i++)\n      htab->entries[i] = EMPTY_ENTRY;\n  }\n}"),
   ("hashtab.cpp", "  for (entry_ptr = entries; entry_ptr < entries + _size; entry_ptr++)\n    *entry_ptr = EMPTY_ENTRY;\n}",
    "  {\n    size_t i;\n    for (i = 0; i < _size; i++)\n      entries[i] = EMPTY_ENTRY;\n  }\n}")])
M("r24-addstr-room-without-terminator", ["C19", "C16"], "break",
  [("vlobject.c", "  length = strlen (str) + 1;\n  if (vlo->vlo_free + length > vlo->vlo_boundary)\n    _VLO_expand_memory (vlo, length);\n  memcpy( vlo->vlo_free, str, length );\n  vlo->vlo_free = vlo->vlo_free + length;",
    "  length = strlen (str);\n  if (vlo->vlo_free + length > vlo->vlo_boundary)\n    _VLO_expand_memory (vlo, length);\n  memcpy( vlo->vlo_free, str, length + 1 );\n  vlo->vlo_free = vlo->vlo_free + length + 1;"),
   ("vlobject.cpp", "  length = strlen (str) + 1;\n  if (vlo_free + length > vlo_boundary)\n    _VLO_expand_memory (length);\n  memcpy( vlo_free, str, length );\n  vlo_free = vlo_free + length;",
    "  length = strlen (str);\n  if (vlo_free + length > vlo_boundary)\n    _VLO_expand_memory (length);\n  memcpy( vlo_free, str, length + 1 );\n  vlo_free = vlo_free + length + 1;")],
  "copy-to-free-end")
M("c03-passthrough-hangs-under-orig-state", ["C03", "C02"], "break",
  [("yaep.c", "		  state->parent_anode_state = (anode == NULL\n					       ? curr_state->\n					       parent_anode_state :\n					       curr_state);",
    "		  state->parent_anode_state = (anode == NULL\n					       ? orig_state->\n					       parent_anode_state :\n					       orig_state);")],
  "make_parse/one-parent-state")
M("c03-copy-anode-rule-of-reduced-symbol", ["C03", "C12", "C02"], "break",
  [("yaep.c", "			  = copy_anode (parent_anode->val.anode.children\n					+ parent_disp, anode, rule, disp);", "			  = copy_anode (parent_anode->val.anode.children\n					+ parent_disp, anode, sit_rule, disp);")],
  "make_parse/copy_anode")
M("r10-follow-inherit-result-dropped", ["C01", "C03", "C10"], "break",
  [("yaep.c", "		    if (k == rhs_len)\n		      changed_p |= term_set_or (rhs_symb->u.nonterm.follow,\n						symb->u.nonterm.follow);", "		    if (k == rhs_len)\n		      term_set_or (rhs_symb->u.nonterm.follow,\n				   symb->u.nonterm.follow);")],
  "create_first_follow_sets/update-reported")
M("r10-access-scan-left-early", ["C10"], "break",
  [("yaep.c", "		empty_p &= rhs_symb->empty_p;\n		derivation_p &= rhs_symb->derivation_p;\n	      }", "		empty_p &= rhs_symb->empty_p;\n		derivation_p &= rhs_symb->derivation_p;\n		if (!derivation_p)\n		  break;\n	      }")],
  "set_empty_access_derives/rhs-scan-total")
M("r10-loop-scan-skips-by-symbol", ["C10", "C12"], "break",
  [("yaep.c", "		    for (k = 0; k < rule->rhs_len; k++)\n		      if (j == k)\n			continue;", "		    for (k = 0; k < rule->rhs_len; k++)\n		      if (rule->rhs[k] == symb)\n			continue;")],
  "set_loop_p/skip-own-position")
M("r13-tie-relinks-to-original-list", ["C04"], "break",
  [("yaep.c", "	      alt->val.alt.next = result;\n	      result = alt;", "	      alt->val.alt.next = node;\n	      result = alt;")], "prune_to_minimal/alt.next")
M("c03-nil-into-parent-node-at-own-index", ["C02", "C03"], "break",
  [("yaep.c", "		  place_translation (anode == NULL\n				     ? parent_anode->val.anode.children\n				     + parent_disp\n				     : anode->val.anode.children + disp,\n				     empty_node);",
    "		  place_translation (anode == NULL\n				     ? parent_anode->val.anode.children\n				     + disp\n				     : anode->val.anode.children + disp,\n				     empty_node);")],
  "make_parse/slot")
M("r25-cxx-table-released-unconditionally", ["C16", "C14"], "break",
  [("yaep.c", "  if (!grammar->one_parse_p)\n#ifndef __cplusplus\n    delete_hash_table (parse_state_tab);\n#else\n    delete parse_state_tab;\n#endif", "#ifndef __cplusplus\n  if (!grammar->one_parse_p)\n    delete_hash_table (parse_state_tab);\n#else\n    delete parse_state_tab;\n#endif")],
  "[c++] parse_state_fin/release-parse_state_tab")
M("r25-c-table-released-unconditionally", ["C14"], "break",
  [("yaep.c", "  if (!grammar->one_parse_p)\n#ifndef __cplusplus\n    delete_hash_table (parse_state_tab);\n#else\n    delete parse_state_tab;\n#endif", "#ifndef __cplusplus\n    delete_hash_table (parse_state_tab);\n#else\n  if (!grammar->one_parse_p)\n    delete parse_state_tab;\n#endif")],
  "parse_state_fin/release-parse_state_tab")
M("c03-revert-F33-shared-alt-lists", ["C04", "C03"], "break",
  [("yaep.c", "      child = (i == disp ? NULL : anode->val.anode.children[i]);\n      child_place = &node->val.anode.children[i];", "      child = NULL;\n      child_place = &node->val.anode.children[i];\n      if (i != disp)\n	*child_place = anode->val.anode.children[i];\n      else")],
  "copy_anode/node-store")
M("t3-revert-F34-skip-cost-as-backward-distance", ["C06", "C12", "C07"], "break",
  [("yaep.c", "	      push_recovery_state (state.last_original_pl_el, cost + 1,\n				   state.back_toks);", "	      push_recovery_state (state.last_original_pl_el, cost + 1,\n				   cost + 1);")],
  "error_recovery/first-ignored")
M("r16-error-shift-without-token-number", ["C12", "C07"], "break",
  [("yaep.c", "      pl[++pl_curr] = new_set;\n      pl_tok_nums[pl_curr] = -1;\n", "      pl[++pl_curr] = new_set;\n")], "error_recovery/pl-store")
M("r16-restored-tail-without-token-numbers", ["C12", "C07"], "break",
  [("yaep.c", "      pl[++pl_curr] = state->pl_tail[i];\n      pl_tok_nums[pl_curr] = state->pl_tail_tok_nums[i];\n", "      pl[++pl_curr] = state->pl_tail[i];\n")], "set_recovery_state/pl-store")
M("r16-revert-F27-token-from-set-number", ["C12", "C07"], "break",
  [("yaep.c", "	  tok_num = pl_tok_nums[pl_ind];\n	  pl_ind--;		/* l */", "	  pl_ind--;		/* l */\n	  tok_num = pl_ind;")], "[set-number]")
M("r13-walk-from-unpruned-root", ["C13", "C04"], "break",
  [("yaep.c", "  root = prune_to_minimal (root, &cost);\n  traverse_pruned_translation (root);", "  {\n    struct yaep_tree_node *pruned = prune_to_minimal (root, &cost);\n    traverse_pruned_translation (root);\n    root = pruned;\n  }")],
  "find_minimal_translation/walk-from-pruned-root")
M("r16-back-cost-counts-error-sets", ["C06", "C12", "C07"], "break",
  [("yaep.c", "    else if (pl[curr_pl]->core->term != grammar->term_error)\n      (*cost)++;", "    else\n      (*cost)++;")], "find_error_pl_set/error-sets-not-counted")
M("r16-back-cost-closed-form", ["C06", "C12", "C07"], "break",
  [("yaep.c", "    else if (pl[curr_pl]->core->term != grammar->term_error)\n      (*cost)++;\n  assert (curr_pl >= 0);", "    else\n      ;\n  assert (curr_pl >= 0);\n  *cost = start_pl_set - curr_pl;")], "find_error_pl_set/error-sets-not-counted")
M("r16-back-cost-local-counter-benign", ["C06", "C12", "C07"], "benign",
  [("yaep.c", "    else if (pl[curr_pl]->core->term != grammar->term_error)\n      (*cost)++;", "    else\n      *cost += (pl[curr_pl]->core->term != grammar->term_error);")])
M("c03-parent-disp-crossed", ["C02", "C03"], "break",
  [("yaep.c", "		  state->parent_disp = anode == NULL ? parent_disp : disp;", "		  state->parent_disp = disp;")], "make_parse/state-pushed")
M("c03-parent-disp-crossed-if-form", ["C02", "C03"], "break",
  [("yaep.c", "			  state->parent_anode_state = curr_state;\n			  state->parent_disp = disp;", "			  state->parent_anode_state = curr_state;\n			  state->parent_disp = parent_disp;")], "make_parse/state-pushed")
M("c03-parent-disp-flipped-condition-benign", ["C02", "C03"], "benign",
  [("yaep.c", "		  state->parent_disp = anode == NULL ? parent_disp : disp;", "		  state->parent_disp = anode != NULL ? disp : parent_disp;")])
M("r12-term-set-number-from-table-count", ["C17", "C14"], "break",
  [("yaep.c", "      tab_term_set_ptr->num = (VLO_LENGTH (term_sets_ptr->tab_term_set_vlo)\n			       / sizeof (struct tab_term_set *));", "      tab_term_set_ptr->num = hash_table_elements_number (term_sets_ptr->term_set_tab) - 1;")],
  "term_set_insert/number-is-vector-index")
M("r22-term-set-test-narrowed", ["C01", "C09"], "break",
  [("yaep.c", "  return (set[ind] & bit) != 0;", "  return set[ind] & bit;")], "term_set_test/narrowed-bit-test")
M("r22-nullable-skip-needs-tail", ["C01", "C05"], "break",
  [("yaep.c", "	  if (symb->empty_p && i >= new_core->n_all_dists)", "	  if (symb->empty_p && i >= new_core->n_all_dists\n	      && sit->pos + 1 < sit->rule->rhs_len)")], "expand_new_start_set/nullable-skip-unconditional")

# ---- sixth wave rules ----------------------------------------------------------------------------
M("r17-sit-dist-slot-before-create", ["C17", "C16"], "break",
  [("yaep.c", "\t  VLO_EXPAND (sit_dist_vec_vlo, sizeof (vlo_t));\n\t}\n    }\n#ifndef __cplusplus\n  check_dist_vlo", "\t}\n    }\n#ifndef __cplusplus\n  check_dist_vlo"),
   ("yaep.c", "      for (i = len; i <= sit_number; i++)\n\t{\n#ifndef __cplusplus\n\t  VLO_CREATE (((vlo_t *) VLO_BEGIN (sit_dist_vec_vlo))[i],", "      for (i = len; i <= sit_number; i++)\n\t{\n\t  VLO_EXPAND (sit_dist_vec_vlo, sizeof (vlo_t));\n#ifndef __cplusplus\n\t  VLO_CREATE (((vlo_t *) VLO_BEGIN (sit_dist_vec_vlo))[i],")],
  "sit_dist_insert/slot-visible-before-created")
M("r26-cxx-lookup-without-reserve", ["C16"], "break",
  [("yaep.c", "  entry = parse_state_tab->find_entry (state, TRUE);", "  entry = parse_state_tab->find_entry (state, FALSE);")], "parse_state_insert/lookups")
M("r26-cxx-rezero-from-start", ["C16"], "break",
  [("yaep.c", "      check_dist_vlo->expand ((dist + 1 - len) * sizeof (int));\n      for (i = len; i <= dist; i++)", "      check_dist_vlo->expand ((dist + 1 - len) * sizeof (int));\n      for (i = 0; i <= dist; i++)")], "sit_dist_insert/loops")
M("r26-both-branches-while-loop-benign", ["C16"], "benign",
  [("yaep.c", "      check_dist_vlo->expand ((dist + 1 - len) * sizeof (int));\n      for (i = len; i <= dist; i++)\n\t((int *) check_dist_vlo->begin ())[i] = 0;", "      check_dist_vlo->expand ((dist + 1 - len) * sizeof (int));\n      i = len;\n      while (i <= dist)\n\t{\n\t  ((int *) check_dist_vlo->begin ())[i] = 0;\n\t  i++;\n\t}")])
M("r24-remove-leaves-empty", ["C19", "C16"], "break",
  [("hashtab.c", "  assert (*entry_ptr != EMPTY_ENTRY && *entry_ptr != DELETED_ENTRY);\n  *entry_ptr = DELETED_ENTRY;", "  assert (*entry_ptr != EMPTY_ENTRY && *entry_ptr != DELETED_ENTRY);\n  *entry_ptr = EMPTY_ENTRY;"),
   ("hashtab.cpp", "  assert (*entry_ptr != EMPTY_ENTRY && *entry_ptr != DELETED_ENTRY);\n  *entry_ptr = DELETED_ENTRY;", "  assert (*entry_ptr != EMPTY_ENTRY && *entry_ptr != DELETED_ENTRY);\n  *entry_ptr = EMPTY_ENTRY;")],
  "removal-leaves-tombstone")
M("r10-term-set-or-last-word", ["C09", "C01"], "break",
  [("yaep.c", "      if ((*set | *op) != *set)\n\tchanged_p = 1;", "      changed_p = (*set | *op) != *set;")], "term_set_or/changed_p-accumulates")
M("r10-term-set-or-accumulates-benign", ["C09", "C01"], "benign",
  [("yaep.c", "      if ((*set | *op) != *set)\n\tchanged_p = 1;", "      changed_p |= (*set | *op) != *set;")])
M("r13-singleton-release-before-costing", ["C13"], "break",
  [("yaep.c", "  grammar->one_parse_p = saved_one_parse_p;\n  if (grammar->cost_p)\n    /* We can not build minimal tree", "  if (parse_free != NULL && !empty_node->val.nil.used)\n    {\n      parse_free (empty_node);\n      empty_node->val.nil.used = 1;\n    }\n  grammar->one_parse_p = saved_one_parse_p;\n  if (grammar->cost_p)\n    /* We can not build minimal tree")],
  "test-is-final")
M("r22-completer-filter-asks-other-sit", ["C01", "C09"], "break",
  [("yaep.c", "\t      if (sit_dist_insert (new_sit, dist))\n\t\tset_new_add_start_sit (new_sit, dist);\n\t    }\n\t  while (curr_el < bound);", "\t      if (sit_dist_insert (sit, dist))\n\t\tset_new_add_start_sit (new_sit, dist);\n\t    }\n\t  while (curr_el < bound);")],
  "build_new_set/filtered-add")
M("r22-nullable-skip-from-start-class", ["C05", "C01"], "break",
  [("yaep.c", "\t  if (symb->empty_p && i >= new_core->n_all_dists)", "\t  if (symb->empty_p && i >= new_core->n_start_sits)")], "nullable-skip-class")
M("r13-min-cost-sentinel", ["C04"], "break",
  [("yaep.c", "  int i, min_cost;\n\n  assert (node != NULL);\n  switch (node->type)", "  int i, min_cost = -1;\n\n  assert (node != NULL);\n  switch (node->type)"),
   ("yaep.c", "\t  if (alt == node || min_cost > *cost)", "\t  if (min_cost < 0 || min_cost > *cost)")], "minimum-compared-with-costs")
M("r4f-terminator-behind-buffer", ["C12", "C15"], "break",
  [("sgramm.y", "\t  str[sizeof (str) - 1] = '\\0';", "\t  str[sizeof (str)] = '\\0';")], "local str[index]")
M("r4f-copy-longer-than-buffer", ["C12", "C15"], "break",
  [("sgramm.y", "\t  strncpy (str, prev->repr, sizeof (str));", "\t  strncpy (str, prev->repr, YAEP_MAX_ERROR_MESSAGE_LENGTH);")], "strncpy(local str)")
M("c11-merge-whole-element", ["C11"], "break",
  [("sgramm.y", "\tprev->code = term->code;", "\t*prev = *term;")], "merge-touches-code-only")
M("c03-copy-empties-lower-slots", ["C03", "C02"], "break",
  [("yaep.c", "      child = (i == disp ? NULL : anode->val.anode.children[i]);", "      child = (i <= disp ? NULL : anode->val.anode.children[i]);")], "copy_anode/slot-test")
M("c03-copy-slot-test-negated-benign", ["C03", "C02"], "benign",
  [("yaep.c", "      child = (i == disp ? NULL : anode->val.anode.children[i]);", "      child = (i != disp ? anode->val.anode.children[i] : NULL);")])
M("r24-sole-object-test-with-slack", ["C19", "C16"], "break",
  [("objstack.c", "  if (os->os_top_object_start ==\n      (char *) _OS_ALIGNED_ADDRESS (os->os_current_segment->\n\t\t\t\t    os_segment_contest))", "  if ((size_t) (os->os_top_object_start - (char *) os->os_current_segment)\n      <= sizeof (struct _os_segment))"),
   ("objstack.cpp", "  if (os_top_object_start ==\n      (char *) _OS_ALIGNED_ADDRESS (os_current_segment->os_segment_contest))", "  if ((size_t) (os_top_object_start - (char *) os_current_segment)\n      <= sizeof (_os_segment))")],
  "segment-released-only-when-sole-object")
M("r10-context-fixpoint-flag-on-new-set-only", ["C05", "C09"], "break",
  [("yaep.c", "\t      if (context >= 0)\n\t\tcontext_set = term_set_create ();\n\t      else\n\t\tcontext = -context - 1;\n\t      sit = sit_create (new_sit->rule, new_sit->pos, context);\n\t      if (sit != new_sit)\n\t\t{\n\t\t  new_sits[i] = sit;\n\t\t  changed_p = TRUE;\n\t\t}",
    "\t      if (context >= 0)\n\t\t{\n\t\t  context_set = term_set_create ();\n\t\t  changed_p = TRUE;\n\t\t}\n\t      else\n\t\tcontext = -context - 1;\n\t      new_sits[i] = sit_create (new_sit->rule, new_sit->pos, context);")],
  "state-store-flagged")
M("r10-context-fixpoint-or-form-benign", ["C05", "C09"], "benign",
  [("yaep.c", "\t      if (sit != new_sit)\n\t\t{\n\t\t  new_sits[i] = sit;\n\t\t  changed_p = TRUE;\n\t\t}", "\t      changed_p |= (sit != new_sit);\n\t      new_sits[i] = sit;")])

# ---- R27 (C18) ---------------------------------------------------------------------------------------
M("r27-sets-never-shared", ["C18"], "break",
  [("yaep.c", "  if (*entry == NULL)\n    {\n      *entry = (hash_table_entry_t) new_set;\n      n_sets++;\n      n_sets_start_sits += new_n_start_sits;\n      OS_TOP_FINISH (sets_os);\n    }\n  else\n    {\n      new_set = (struct set *) *entry;\n      OS_TOP_NULLIFY (sets_os);\n    }",
    "  *entry = (hash_table_entry_t) new_set;\n  n_sets++;\n  n_sets_start_sits += new_n_start_sits;\n  OS_TOP_FINISH (sets_os);")], "set_insert/set_tab")
M("r27-found-dists-not-used", ["C18"], "break",
  [("yaep.c", "      new_dists = new_set->dists = ((struct set *) *entry)->dists;\n      OS_TOP_NULLIFY (set_dists_os);", "      OS_TOP_FINISH (set_dists_os);")], "set_insert/set_dists_tab")
M("r27-dists-hash-first-element", ["C18"], "break",
  [("yaep.c", "  while (dist_ptr < dist_bound)\n    result = result * hash_shift + *dist_ptr++;\n  set->dists_hash = result;", "  if (dist_ptr < dist_bound)\n    result = result * hash_shift + *dist_ptr++;\n  set->dists_hash = result;")], "dists_hash/depends-on-key")
M("r27-core-hash-prefix", ["C18"], "break",
  [("yaep.c", "  for (i = 0; i < n_sits; i++)\n    {\n      n = sits[i]->sit_number;", "  for (i = 0; i < 2 && i < n_sits; i++)\n    {\n      n = sits[i]->sit_number;")], "set_core_hash/depends-on-key")
M("r27-goto-hash-without-lookahead", ["C18"], "break",
  [("yaep.c", "  return ((set_core_dists_hash (set) * hash_shift\n\t   + term->u.term.term_num) * hash_shift + lookahead);", "  return ((set_core_dists_hash (set) * hash_shift\n\t   + term->u.term.term_num) * hash_shift);")], "set_term_lookahead_hash/depends-on-key")
M("r27-built-set-not-cached", ["C18"], "break",
  [("yaep.c", "\t  ((struct set_term_lookahead *) *entry)->result[i] = new_set;\n", "")], "build_pl/built-set-recorded")
M("r27-cache-cursor-stuck", ["C18"], "break",
  [("yaep.c", "\t  ((struct set_term_lookahead *) *entry)->curr =\n\t    (i + 1) % MAX_CACHED_GOTO_RESULTS;\n", "")], "build_pl/built-set-recorded")
M("r27-cached-set-not-taken", ["C18"], "break",
  [("yaep.c", "\t\tnew_set = tab_set;\n\t\tn_goto_successes++;", "\t\tn_goto_successes++;")], "build_pl/build-skipped-after-hit")
M("r27-table-grows-when-full", ["C18"], "break",
  [("hashtab.c", "  if (htab->size / 4 <= htab->number_of_elements / 3)", "  if (htab->size <= htab->number_of_elements + 1)"),
   ("hashtab.cpp", "  if (_size / 4 <= number_of_elements / 3)", "  if (_size <= number_of_elements + 1)")], "lookup/expands-below-full")
M("r27-additive-growth", ["C18"], "break",
  [("hashtab.c", "    create_hash_table (htab->alloc, htab->number_of_elements * 2,", "    create_hash_table (htab->alloc, htab->number_of_elements + 64,")], "expansion/geometric")
M("r27-threshold-rewritten-benign", ["C18"], "benign",
  [("hashtab.c", "  if (htab->size / 4 <= htab->number_of_elements / 3)", "  if (htab->number_of_elements / 3 >= htab->size / 4)")])
M("r27-consing-inverted-test-benign", ["C18"], "benign",
  [("yaep.c", "  if (*entry == NULL)\n    {\n      *entry = (hash_table_entry_t) new_set;\n      n_sets++;\n      n_sets_start_sits += new_n_start_sits;\n      OS_TOP_FINISH (sets_os);\n    }\n  else\n    {\n      new_set = (struct set *) *entry;\n      OS_TOP_NULLIFY (sets_os);\n    }",
    "  if (*entry != NULL)\n    {\n      new_set = (struct set *) *entry;\n      OS_TOP_NULLIFY (sets_os);\n    }\n  else\n    {\n      n_sets++;\n      n_sets_start_sits += new_n_start_sits;\n      *entry = (hash_table_entry_t) new_set;\n      OS_TOP_FINISH (sets_os);\n    }")])

# ---- seventh wave rules ---------------------------------------------------------------------------
M("r4g-ensure-one-short", ["C12"], "break",
  [("yaep.c", "      VLO_EXPAND (*check_dist_vlo, (dist + 1 - len) * sizeof (int));\n      for (i = len; i <= dist; i++)", "      VLO_EXPAND (*check_dist_vlo, (dist - len) * sizeof (int));\n      for (i = len; i < dist; i++)")],
  "sit_dist_insert/")
M("r25-use-without-release-function", ["C12", "C13", "C14"], "break",
  [("yaep.c", "\t  if (parse_free != NULL)\n\t    VLO_ADD_MEMORY (tnodes_vlo, &alt, sizeof (alt));", "\t  VLO_ADD_MEMORY (tnodes_vlo, &alt, sizeof (alt));")], "use-of-tnodes_vlo")
M("c03-nil-at-pop-without-own-node-test", ["C02", "C03"], "break",
  [("yaep.c", "\t  if (parent_anode != NULL && rule->trans_len == 0 && anode == NULL)", "\t  if (parent_anode != NULL && rule->trans_len == 0)")], "nil-into-parent-slot")
M("r28-vlo-boundary-only-when-moved", ["C19", "C18"], "break",
  [("vlobject.c", "      vlo->vlo_start = new_vlo_start;\n    }\n  vlo->vlo_boundary = vlo->vlo_start + vlo_length;\n}\n\n/* The following function implements macro `VLO_ADD_STRING'", "      vlo->vlo_start = new_vlo_start;\n      vlo->vlo_boundary = vlo->vlo_start + vlo_length;\n    }\n}\n\n/* The following function implements macro `VLO_ADD_STRING'")],
  "_VLO_tailor_function/vlo_boundary-after")
M("r28-cxx-size-before-rounding", ["C19", "C18", "C16"], "break",
  [("hashtab.cpp", "  this->_size = size;", "  this->_size = size - 1;")], "size-after-yaep_malloc")
M("r28-os-boundary-includes-header", ["C19", "C18"], "break",
  [("objstack.c", "  os->os_boundary = os->os_top_object_start + segment_length;", "  os->os_boundary = os->os_top_object_start + segment_length + sizeof (struct _os_segment);")], "_OS_expand_memory/os_boundary-after")
M("r28-boundary-from-local-benign", ["C19", "C18"], "benign",
  [("vlobject.c", "  vlo->vlo_boundary = vlo->vlo_start + vlo_length;\n}\n\n/* The following function implements macro `VLO_ADD_STRING'", "  vlo->vlo_boundary = new_vlo_start + vlo_length;\n}\n\n/* The following function implements macro `VLO_ADD_STRING'")])

M("r27-set-table-hashed-by-core-only", ["C18"], "break",
  [("yaep.c", "\t\t       set_core_dists_hash, set_core_dists_eq);", "\t\t       set_core_hash, set_core_dists_eq);")], "hash-covers-equality")
M("r27-vlo-slack-from-addition-only", ["C18"], "break",
  [("vlobject.c", "  vlo_length = VLO_LENGTH (*vlo) + additional_length;\n  vlo_length += vlo_length / 2 + 1;", "  vlo_length = VLO_LENGTH (*vlo) + additional_length;\n  vlo_length += additional_length / 2 + 1;")],
  "_VLO_expand_memory/slack-grows-with-length")
M("r27-vlo-doubling-benign", ["C18"], "benign",
  [("vlobject.c", "  vlo_length = VLO_LENGTH (*vlo) + additional_length;\n  vlo_length += vlo_length / 2 + 1;", "  vlo_length = VLO_LENGTH (*vlo) + additional_length;\n  vlo_length = 2 * vlo_length + 1;")])

# ---- F37 / F38 and the eighth wave rules ------------------------------------------------------------
M("r12-revert-F37-publish-before-append", ["C17", "C14"], "break",
  [("yaep.c", "      tab_term_set_ptr->set = set;\n      tab_term_set_ptr->num = (VLO_LENGTH (term_sets_ptr->tab_term_set_vlo)", "      *entry = (hash_table_entry_t) tab_term_set_ptr;\n      tab_term_set_ptr->set = set;\n      tab_term_set_ptr->num = (VLO_LENGTH (term_sets_ptr->tab_term_set_vlo)")],
  "term_set_insert/published-after-last-failing-step")
M("r4h-revert-F38-int-range", ["C12", "C15"], "break",
  [("yaep.c", "  if (max_code != INT_MAX\n      && ((unsigned int) max_code - (unsigned int) min_code\n\t  < (unsigned int) SYMB_CODE_TRANS_VECT_SIZE))", "  if (max_code - min_code < SYMB_CODE_TRANS_VECT_SIZE)")],
  "symb_finish_adding_terms/code-difference")
M("c11-keyword-prefix-compare", ["C11"], "break",
  [("sgramm.y", "strcmp ((char *) yylval.ref, \"TERM\") == 0", "strncmp ((char *) yylval.ref, \"TERM\", 4) == 0")], "yylex/keyword-compare")
M("r13-error-node-release-under-setting", ["C13"], "break",
  [("yaep.c", "      if (!error_node->val.error.used)\n\t{\n\t  parse_free (error_node);\n\t}", "      if (!error_node->val.error.used && grammar->error_recovery_p)\n\t{\n\t  parse_free (error_node);\n\t}")],
  "release-of-unused-ERROR")
M("t4-free-tree-null-root-unguarded", ["C13"], "break",
  [("yaep.c", "  if (root == NULL)\n    {\n      return;\n    }\n  if (parse_free == NULL)", "  if (parse_free == NULL)")], "gets-non-null-root")
M("c03-nil-stored-past-place-translation", ["C03", "C02"], "break",
  [("yaep.c", "\t\t  place_translation (anode == NULL\n\t\t\t\t     ? parent_anode->val.anode.children\n\t\t\t\t     + parent_disp\n\t\t\t\t     : anode->val.anode.children + disp,\n\t\t\t\t     empty_node);",
    "\t\t  if (anode == NULL)\n\t\t    parent_anode->val.anode.children[parent_disp] = empty_node;\n\t\t  else\n\t\t    anode->val.anode.children[disp] = empty_node;")], "direct-slot-store")
M("r22-nullable-skip-only-at-first-sight", ["C05", "C01"], "break",
  [("yaep.c", "\t      if (!symb->term_p)\n\t\tfor (rule = symb->u.nonterm.rules;\n\t\t     rule != NULL; rule = rule->lhs_next)\n\t\t  set_new_add_initial_sit (sit_create (rule, 0, 0));\n\t    }\n\t  core_symb_vect_new_add_transition_el (core_symb_vect, i);\n\t  if (symb->empty_p && i >= new_core->n_all_dists)\n\t    set_new_add_initial_sit (sit_create (sit->rule, sit->pos + 1, 0));",
    "\t      if (!symb->term_p)\n\t\tfor (rule = symb->u.nonterm.rules;\n\t\t     rule != NULL; rule = rule->lhs_next)\n\t\t  set_new_add_initial_sit (sit_create (rule, 0, 0));\n\t      if (symb->empty_p && i >= new_core->n_all_dists)\n\t\tset_new_add_initial_sit (sit_create (sit->rule, sit->pos + 1, 0));\n\t    }\n\t  core_symb_vect_new_add_transition_el (core_symb_vect, i);")],
  "nullable-skip-class")

M("r4b-local-cursor-commits-behind-nul", ["C11", "C12"], "break",
  [("sgramm.y", "	      while ((c = *curr_ch++) != '\\0' && isdigit (c))\n		{\n		  if (yylval.num > (INT_MAX - (c - '0')) / 10)\n		    /* The number does not fit into int.  */\n		    yyerror (\"too big number\");\n		  yylval.num = yylval.num * 10 + (c - '0');\n		}\n	      curr_ch--;",
    "\t      {\n\t\tconst char *next = curr_ch;\n\n\t\tdo\n\t\t  {\n\t\t    c = *next++;\n\t\t    if (isdigit (c))\n\t\t      {\n\t\t\tif (yylval.num > (INT_MAX - (c - '0')) / 10)\n\t\t\t  yyerror (\"too big number\");\n\t\t\tyylval.num = yylval.num * 10 + (c - '0');\n\t\t      }\n\t\t  }\n\t\twhile (isdigit (c));\n\t\tcurr_ch = next;\n\t      }")],
  "yaep_yylex/")
M("r4b-local-cursor-peek-benign", ["C11", "C12"], "benign",
  [("sgramm.y", "	      while ((c = *curr_ch++) != '\\0' && isdigit (c))\n		{\n		  if (yylval.num > (INT_MAX - (c - '0')) / 10)\n		    /* The number does not fit into int.  */\n		    yyerror (\"too big number\");\n		  yylval.num = yylval.num * 10 + (c - '0');\n		}\n	      curr_ch--;",
    "\t      {\n\t\tconst char *next = curr_ch;\n\n\t\twhile (*next != '\\0' && isdigit (*next))\n\t\t  {\n\t\t    c = *next;\n\t\t    next += 1;\n\t\t    if (yylval.num > (INT_MAX - (c - '0')) / 10)\n\t\t      yyerror (\"too big number\");\n\t\t    yylval.num = 10 * yylval.num + (c - '0');\n\t\t  }\n\t\tcurr_ch = next;\n\t      }")])

# ---- ninth wave rules --------------------------------------------------------------------------------
M("r21-bounds-of-another-core", ["C12", "C02", "C01"], "break",
  [("yaep.c", "\t\t\t - check_set->dists[check_set_core->parent_indexes\n\t\t\t\t\t    [check_sit_ind]]);", "\t\t\t - check_set->dists[set_core->parent_indexes\n\t\t\t\t\t    [check_sit_ind]]);")], "make_parse/parent_indexes")
M("r24-reserve-empty-through-probe-position", ["C19", "C16"], "break",
  [("hashtab.c", "\t\t  entry_ptr = first_deleted_entry_ptr;\n\t\t  *entry_ptr = EMPTY_ENTRY;", "\t\t  *entry_ptr = EMPTY_ENTRY;\n\t\t  entry_ptr = first_deleted_entry_ptr;"),
   ("hashtab.cpp", "\t\t  entry_ptr = first_deleted_entry_ptr;\n\t\t  *entry_ptr = EMPTY_ENTRY;", "\t\t  *entry_ptr = EMPTY_ENTRY;\n\t\t  entry_ptr = first_deleted_entry_ptr;")],
  "empty-mark-through-deleted-entry")
M("r24-first-length-updated-on-replacement", ["C19", "C16"], "break",
  [("objstack.c", "      previous_segment = os->os_current_segment->os_previous_segment;\n      yaep_free (os->os_alloc, os->os_current_segment);", "      previous_segment = os->os_current_segment->os_previous_segment;\n      os->initial_segment_length = segment_length;\n      yaep_free (os->os_alloc, os->os_current_segment);")],
  "_OS_expand_memory/initial_segment_length")
M("r16-saved-token-numbers-shifted", ["C12", "C07"], "break",
  [("yaep.c", "\t\t     &pl_tok_nums[last_original_pl_el + 1],", "\t\t     &pl_tok_nums[last_original_pl_el],")], "token-numbers-of-the-saved-sets")
M("r27-set-stored-unreserved", ["C18"], "break",
  [("yaep.c", "  entry = find_hash_table_entry (set_tab, new_set, TRUE);", "  entry = find_hash_table_entry (set_tab, new_set, FALSE);")], "set_insert/set_tab")
M("r24-walk-frees-member", ["C19", "C16"], "break",
  [("objstack.cpp", "      yaep_free (os_alloc, current_segment);\n      current_segment = previous_segment;", "      yaep_free (os_alloc, os_current_segment);\n      current_segment = previous_segment;")], "release-in-walk")
M("r14-cxx-slot-address-before-reserve", ["C16"], "break",
  [("yaep.c", "  vlo_t **vlo_ptr;\n\n  if ((unsigned) vlo_array_len >= vlo_array->length () / sizeof (vlo_t *))\n    {\n      vlo_array->expand (sizeof (vlo_t *));\n      vlo_array->shorten (sizeof (vlo_t *));\n      vlo_ptr = &((vlo_t **) vlo_array->begin ())[vlo_array_len];",
    "  vlo_t **vlo_ptr;\n\n  vlo_ptr = &((vlo_t **) vlo_array->begin ())[vlo_array_len];\n  if ((unsigned) vlo_array_len >= vlo_array->length () / sizeof (vlo_t *))\n    {\n      vlo_array->expand (sizeof (vlo_t *));\n      vlo_array->shorten (sizeof (vlo_t *));")],
  "vlo_array_expand/")

M("r16-back-frontier-keeps-temporary-token", ["C06", "C12", "C07"], "break",
  [("yaep.c", "\t      set_original_set_bound (state.last_original_pl_el);\n\t      tok_curr = saved_tok_curr;", "\t      set_original_set_bound (state.last_original_pl_el);")], "back-frontier-restores-tok_curr")
M("r16-head-frontier-stops-before-end-marker", ["C06", "C12", "C07"], "break",
  [("yaep.c", "\t  tok_curr++;\n\t  if (tok_curr < toks_len)", "\t  tok_curr++;\n\t  if (tok_curr < toks_len - 1)")], "head-frontier-up-to-end-marker")
M("r16-head-frontier-le-form-benign", ["C06", "C12", "C07"], "benign",
  [("yaep.c", "\t  tok_curr++;\n\t  if (tok_curr < toks_len)", "\t  tok_curr++;\n\t  if (tok_curr <= toks_len - 1)")])

# ---- F39 and the tenth wave rules ----------------------------------------------------------------------
M("r16-revert-F39-hop-forgets-old-frontier", ["C07", "C06", "C12"], "break",
  [("yaep.c", "\t  if (pl[back_pl_frontier]->core->term != grammar->term_error)\n\t    backward_move_cost++;\n", "")], "hop-counts-the-old-frontier")
M("r16-accept-before-end-marker", ["C07", "C06"], "break",
  [("yaep.c", "      if (n_matched_toks >= grammar->recovery_token_matches\n\t  || tok_curr >= toks_len)", "      if (n_matched_toks >= grammar->recovery_token_matches\n\t  || tok_curr >= toks_len - 1)")], "accepted-when-all-tokens-consumed")
M("r16-secondary-state-with-popped-cost", ["C07", "C06"], "break",
  [("yaep.c", "\t      push_recovery_state (state.last_original_pl_el, cost,\n\t\t\t\t   state.back_toks);", "\t      push_recovery_state (state.last_original_pl_el,\n\t\t\t\t   state.backward_move_cost, state.back_toks);")], "continuing-state-cost")
M("r14-tail-pointer-before-growth", ["C12", "C07"], "break",
  [("yaep.c", "  /* The token numbers of the sets are placed after the sets.  */\n  OS_TOP_ADD_MEMORY (recovery_state_tail_sets,", "  state.pl_tail = (struct set **) OS_TOP_BEGIN (recovery_state_tail_sets);\n  /* The token numbers of the sets are placed after the sets.  */\n  OS_TOP_ADD_MEMORY (recovery_state_tail_sets,"),
   ("yaep.c", "\t\t     state.pl_tail_length * sizeof (int));\n  state.pl_tail = (struct set **) OS_TOP_BEGIN (recovery_state_tail_sets);\n", "\t\t     state.pl_tail_length * sizeof (int));\n")],
  "new_recovery_state/")
M("r27-cache-place-is-token-number", ["C09", "C01", "C18", "C07"], "break",
  [("yaep.c", "\t  ((struct set_term_lookahead *) *entry)->place[i] = pl_curr;", "\t  ((struct set_term_lookahead *) *entry)->place[i] = tok_curr;")], "place-is-parser-list-position")
M("r15-exempt-distance-two", ["C03", "C01", "C09"], "break",
  [("yaep.c", "      if ((dist = dists[i]) <= 1)\n\tcontinue;", "      if ((dist = dists[i]) <= 2)\n\tcontinue;")], "exempt-distances")
M("r13-unmark-before-reservation-test", ["C04", "C13"], "break",
  [("yaep.c", "\t  entry = find_hash_table_entry (reserv_mem_tab, *node_ptr, TRUE);\n\t  if (*entry != NULL)\n\t    continue;", "\t  if ((*node_ptr)->type == YAEP_NIL)\n\t    (*node_ptr)->val.nil.used = 0;\n\t  entry = find_hash_table_entry (reserv_mem_tab, *node_ptr, TRUE);\n\t  if (*entry != NULL)\n\t    continue;")],
  "find_minimal_translation/unmark")
M("c10-cost-check-only-with-translation", ["C10"], "break",
  [("yaep.c", "      if (anode != NULL && anode_cost < 0)", "      if (transl != NULL && anode != NULL && anode_cost < 0)")], "YAEP_NEGATIVE_COST")

# ---- R8 / R2f (C16, C19) ----------------------------------------------------------------------------
M("r8-revert-F14", ["C19", "C16"], "break", [("hashtab.cpp", "		  entry_ptr = first_deleted_entry_ptr;\n		  *entry_ptr = EMPTY_ENTRY;", "		  entry_ptr = first_deleted_entry_ptr;\n		  *entry_ptr = DELETED_ENTRY;")], "find_hash_table_entry~")
M("r2f-revert-F15", ["C19", "C16"], "break", [("hashtab.cpp", "  ::operator delete (new_htab);", "  yaep_free (new_htab->alloc, new_htab);")], "expand_hash_table/new")
M("r8-cxx-remove-marks-empty", ["C19", "C16"], "break",
  [("hashtab.cpp", "  assert (*entry_ptr != EMPTY_ENTRY && *entry_ptr != DELETED_ENTRY);\n  *entry_ptr = DELETED_ENTRY;", "  assert (*entry_ptr != EMPTY_ENTRY && *entry_ptr != DELETED_ENTRY);\n  *entry_ptr = EMPTY_ENTRY;")], "remove_element_from_hash_table_entry~")
M("r8-cxx-empty-forgets-deleted-count", ["C19", "C16"], "break",
  [("hashtab.cpp", "  number_of_elements = 0;\n  number_of_deleted_elements = 0;\n  for (entry_ptr = entries; entry_ptr < entries + _size; entry_ptr++)", "  number_of_elements = 0;\n  for (entry_ptr = entries; entry_ptr < entries + _size; entry_ptr++)")], "empty_hash_table~")
M("r8-cxx-rehash-skips-last", ["C19", "C16"], "break",
  [("hashtab.cpp", "  for (entry_ptr = entries; entry_ptr < entries + _size; entry_ptr++)\n    if (*entry_ptr != EMPTY_ENTRY && *entry_ptr != DELETED_ENTRY)", "  for (entry_ptr = entries; entry_ptr < entries + _size - 1; entry_ptr++)\n    if (*entry_ptr != EMPTY_ENTRY && *entry_ptr != DELETED_ENTRY)")], "expand_hash_table~")
M("r8-c-rehash-copies-deleted", ["C19"], "break",
  [("hashtab.c", "    if (*entry_ptr != EMPTY_ENTRY && *entry_ptr != DELETED_ENTRY)\n      {\n	new_entry_ptr = find_hash_table_entry", "    if (*entry_ptr != EMPTY_ENTRY)\n      {\n	new_entry_ptr = find_hash_table_entry")], "expand_hash_table~")
M("r8-cxx-vlo-boundary-not-updated", ["C19", "C16"], "break",
  [("vlobject.cpp", "  vlo_length += vlo_length / 2 + 1;\n  new_vlo_start = (char *) yaep_realloc (vlo_alloc, vlo_start, vlo_length);\n  if (new_vlo_start != vlo_start)\n    {\n      vlo_free += new_vlo_start - vlo_start;\n      vlo_start = new_vlo_start;\n    }\n  vlo_boundary = vlo_start + vlo_length;",
    "  vlo_length += vlo_length / 2 + 1;\n  new_vlo_start = (char *) yaep_realloc (vlo_alloc, vlo_start, vlo_length);\n  if (new_vlo_start != vlo_start)\n    {\n      vlo_free += new_vlo_start - vlo_start;\n      vlo_start = new_vlo_start;\n    }")], "_VLO_expand_memory~")
M("r8-macro-top-expand-ge", ["C19", "C16"], "break",
  [("objstack.h", "    if (os_top_object_free + length > os_boundary)\n      _OS_expand_memory (length);\n    os_top_object_free += length;", "    if (os_top_object_free + length >= os_boundary)\n      _OS_expand_memory (length);\n    os_top_object_free += length;")], "OS_TOP_EXPAND~")
M("r8-method-add-byte-no-check", ["C19", "C16"], "break",
  [("vlobject.h", "    if (vlo_free >= vlo_boundary)\n      _VLO_expand_memory (1);\n    *vlo_free++ = b;", "    *vlo_free++ = b;")], "VLO_ADD_BYTE~")
M("r8-benign-growth-factor-one-twin", ["C19", "C16"], "benign",
  [("hashtab.cpp", "    new hash_table (alloc, number_of_elements * 2, hash_function,", "    new hash_table (alloc, number_of_elements * 3, hash_function,")])

# ---- C11 -----------------------------------------------------------------------------------------------
M("c11-revert-F11", ["C11"], "break",
  [("sgramm.y", "  if ((err_code = setjmp (error_longjump_buff)) != 0)", "  if ((code = setjmp (error_longjump_buff)) != 0)")], "implicit-code-counter")
M("c11-codes-from-255", ["C11"], "break", [("sgramm.y", "  int code = 256;", "  int code = 255;")], "implicit-code-counter")
M("c11-code-step-2", ["C11"], "break", [("sgramm.y", "	term->code = code++;", "	{ term->code = code; code += 2; }")], "implicit-code-counter")
M("c11-implicit-for-zero-too", ["C11"], "break", [("sgramm.y", "      if (term->code < 0)\n	{\n	  /* Take the next free", "      if (term->code <= 0)\n	{\n	  /* Take the next free")], "implicit-code-condition")
M("c11-default-cost-zero", ["C11"], "break", [("sgramm.y", "cost :         { anode_cost = 1;}", "cost :         { anode_cost = 0;}")], "yyparse/anode_cost")
M("c11-char-code-wrong-index", ["C11"], "break", [("sgramm.y", "	  term.code = (unsigned char) term.repr [1];", "	  term.code = (unsigned char) term.repr [0];")], "char-constant-code")
M("c11-replay-swaps-fields", ["C11"], "break", [("sgramm.y", "  *abs_node = rule->anode;", "  *abs_node = rule->lhs;")], "sread_rule/*abs_node")
M("c11-yyerror-other-code", ["C11"], "break", [("sgramm.y", "  yaep_error (YAEP_DESCRIPTION_SYNTAX_ERROR_CODE,\n	      \"description syntax error on ln %d\", ln);", "  yaep_error (YAEP_NO_RULES,\n	      \"description syntax error on ln %d\", ln);")], "yyerror/code-and-line")
M("c11-benign-preincrement-form", ["C11"], "benign", [("sgramm.y", "	  term->code = code++;", "	  { term->code = code; code = code + 1; }")])

# ---- R6 (C09, C01) ---------------------------------------------------------------------------------------
M("r6-side-effect-under-debug", ["C09"], "break",
  [("yaep.c", "	  fprintf (stderr, \"\\nReading %d=\", tok_curr);", "	  fprintf (stderr, \"\\nReading %d=\", tok_curr);\n	  lookahead_term_num = -1;")], "R6")
M("r6-debug-level-selects-value", ["C09"], "break",
  [("yaep.c", "  best_cost = 2 * toks_len;", "  best_cost = (grammar->debug_level > 7 ? toks_len : 2 * toks_len);")], "R6")
M("r6-debug-returns-early", ["C09"], "break",
  [("yaep.c", "  if (grammar->debug_level > 2)\n    fprintf (stderr, \"\\n++Error recovery start\\n\");", "  if (grammar->debug_level > 2)\n    {\n      fprintf (stderr, \"\\n++Error recovery start\\n\");\n      if (toks_len == 0)\n	return;\n    }")], "R6")
M("r6-printer-writes-state", ["C09"], "break",
  [("yaep.c", "  fprintf (f, \"%3d \", sit->sit_number);\n  rule_dot_print (f, sit->rule, sit->pos);", "  fprintf (f, \"%3d \", sit->sit_number);\n  sit->context = 0;\n  rule_dot_print (f, sit->rule, sit->pos);")], "printer/sit_print")
M("r6-debug-used-as-value", ["C09"], "break",
  [("yaep.c", "  n_goto_successes = 0;\n  tok_init ();", "  n_goto_successes = grammar->debug_level;\n  tok_init ();")], "R6")
M("r6-benign-more-printing", ["C09"], "benign",
  [("yaep.c", "  if (grammar->debug_level > 2)\n    fprintf (stderr, \"\\n++Error recovery start\\n\");", "  if (grammar->debug_level > 2)\n    {\n      fprintf (stderr, \"\\n++Error recovery start\\n\");\n      fprintf (stderr, \"tokens: %d\\n\", toks_len);\n    }")])

# ---- T1 / T3 / R6-flags (C01, C02, C06) -------------------------------------------------------------------
M("t3-wrong-attr-index", ["C06", "C07"], "break",
  [("yaep.c", "			    start, toks[start].attr, stop,\n			    toks[stop].attr);", "			    start, toks[start].attr, stop,\n			    toks[start].attr);")], "syntax_error#")
M("t3-error-token-attr-of-next", ["C06", "C07"], "break",
  [("yaep.c", "	      syntax_error (saved_tok_curr, toks[saved_tok_curr].attr,\n			    -1, NULL, -1, NULL);", "	      syntax_error (saved_tok_curr, toks[tok_curr + 1].attr,\n			    -1, NULL, -1, NULL);")], "syntax_error#")
M("t3-recovery-off-continues", ["C06", "C01", "C07"], "break",
  [("yaep.c", "			    -1, NULL, -1, NULL);\n	      break;", "			    -1, NULL, -1, NULL);\n	      continue;")], "syntax_error#")
M("t3-recovery-flag-inverted", ["C06", "C01", "C07"], "break",
  [("yaep.c", "	      if (grammar->error_recovery_p)\n	    {\n	      error_recovery (&start, &stop);", "	      if (!grammar->error_recovery_p)\n	    {\n	      error_recovery (&start, &stop);")], "recovery-switch")
M("t1-term-attr-previous-token", ["C02", "C06", "C13"], "break",
  [("yaep.c", "		  node->val.term.attr = toks[tok_num].attr;", "		  node->val.term.attr = toks[tok_curr].attr;")], "term.attr")
M("t1-term-code-num", ["C02"], "break",
  [("yaep.c", "		      node->val.term.code = symb->u.term.code;", "		      node->val.term.code = symb->u.term.term_num;")], "term.code")
M("t1-tok-attr-dropped", ["C02", "C06"], "break",
  [("yaep.c", "  tok.attr = attr;\n  tok.symb = symb_find_by_code (code);", "  tok.attr = NULL;\n  tok.symb = symb_find_by_code (code);")], "tok.attr")
M("r6f-recogniser-reads-one-parse", ["C01"], "break",
  [("yaep.c", "  local_lookahead_level = (lookahead_term_num < 0\n			   ? 0 : grammar->lookahead_level);", "  local_lookahead_level = (lookahead_term_num < 0 || !grammar->one_parse_p\n			   ? 0 : grammar->lookahead_level);")], "recogniser/")
M("r6f-acceptance-depends-on-cost", ["C01"], "break",
  [("yaep.c", "      || sit->rule->lhs != grammar->axiom || sit->pos != sit->rule->rhs_len)\n    {", "      || sit->rule->lhs != grammar->axiom || sit->pos != sit->rule->rhs_len\n      || (grammar->cost_p && toks_len > 100000))\n    {")], "make_parse/acceptance")

# ---- a batch of behaviour-preserving maintenance edits: every listed check must stay silent ------------------
M("benign-defaults-reordered", ["C15"], "benign",
  [("yaep.c", "  grammar->debug_level = 0;\n  grammar->lookahead_level = 1;\n  grammar->one_parse_p = 1;\n  grammar->cost_p = 0;", "  grammar->cost_p = 0;\n  grammar->one_parse_p = 1;\n  grammar->lookahead_level = 1;\n  grammar->debug_level = 0;")])
M("benign-defaults-in-helper", ["C15", "C14", "C17"], "benign",
  [("yaep.c", "/* The following function allocates memory for new grammar. */", "static void\nset_defaults (struct grammar *g)\n{\n  g->debug_level = 0;\n  g->lookahead_level = 1;\n  g->one_parse_p = 1;\n  g->cost_p = 0;\n  g->error_recovery_p = 1;\n  g->recovery_token_matches = DEFAULT_RECOVERY_TOKEN_MATCHES;\n}\n\n/* The following function allocates memory for new grammar. */"),
   ("yaep.c", "  grammar->debug_level = 0;\n  grammar->lookahead_level = 1;\n  grammar->one_parse_p = 1;\n  grammar->cost_p = 0;\n  grammar->error_recovery_p = 1;\n  grammar->recovery_token_matches = DEFAULT_RECOVERY_TOKEN_MATCHES;", "  set_defaults (grammar);")])
M("benign-root-reset-first", ["C05", "C14", "C15", "C17", "C13"], "benign",
  [("yaep.c", "  parse_free = free;\n  *root = NULL;\n  *ambiguous_p = FALSE;\n  pl_init ();", "  parse_free = free;\n  pl_init ();"),
   ("yaep.c", "  /* Set up parse allocation */\n  if (alloc == NULL)", "  *root = NULL;\n  *ambiguous_p = FALSE;\n  /* Set up parse allocation */\n  if (alloc == NULL)")])
M("benign-free-order", ["C14", "C17"], "benign",
  [("yaep.c", "      rule_fin (g->rules_ptr);\n      term_set_fin (g->term_sets_ptr);\n      symb_fin (g->symbs_ptr);", "      symb_fin (g->symbs_ptr);\n      term_set_fin (g->term_sets_ptr);\n      rule_fin (g->rules_ptr);")])
M("benign-tok-add-local", ["C15", "C06", "C02", "C12"], "benign",
  [("yaep.c", "  tok.attr = attr;\n  tok.symb = symb_find_by_code (code);\n  if (tok.symb == NULL)\n    yaep_error (YAEP_INVALID_TOKEN_CODE, \"invalid token code %d\", code);",
    "  struct symb *found = symb_find_by_code (code);\n\n  if (found == NULL)\n    yaep_error (YAEP_INVALID_TOKEN_CODE, \"invalid token code %d\", code);\n  tok.attr = attr;\n  tok.symb = found;")])
M("benign-read-toks-for-loop", ["C15", "C06"], "benign",
  [("yaep.c", "  while ((code = read_token (&attr)) >= 0)\n    tok_add (code, attr);", "  for (;;)\n    {\n      code = read_token (&attr);\n      if (code < 0)\n	break;\n      tok_add (code, attr);\n    }")])
M("benign-vsnprintf-sizeof", ["C12", "C17", "C15"], "benign",
  [("yaep.c", "  vsnprintf (grammar->error_message, YAEP_MAX_ERROR_MESSAGE_LENGTH, format,", "  vsnprintf (grammar->error_message, sizeof (grammar->error_message), format,")])
M("benign-setter-no-temp", ["C15"], "benign",
  [("yaep.c", "  old = grammar->cost_p;\n  grammar->cost_p = flag;\n  return old;", "  old = grammar->cost_p;\n  if (old != flag)\n    grammar->cost_p = flag;\n  return old;")])
M("benign-table-sizes", ["C12", "C14", "C19"], "benign",
  [("yaep.c", "create_hash_table (grammar->alloc, 2000, set_core_hash, set_core_eq);", "create_hash_table (grammar->alloc, 4000, set_core_hash, set_core_eq);")])
M("benign-pruning-if-else", ["C13", "C04"], "benign",
  [("yaep.c", "	  if (*entry != NULL)\n	    continue;\n	  /* The same node can be mentioned several times and the same\n	     name is used by all nodes of a rule: remember what we have\n	     freed.  */\n	  *entry = (hash_table_entry_t) *node_ptr;",
    "	  if (*entry == NULL)\n	    *entry = (hash_table_entry_t) *node_ptr;\n	  else\n	    continue;")])
M("benign-extra-debug-print", ["C09", "C01"], "benign",
  [("yaep.c", "  error_recovery_init ();\n  build_start_set ();", "  error_recovery_init ();\n#ifndef NO_YAEP_DEBUG_PRINT\n  if (grammar->debug_level > 6)\n    fprintf (stderr, \"building the parser list for %d tokens\\n\", toks_len);\n#endif\n  build_start_set ();")])
M("benign-message-text", ["C10", "C12", "C15"], "benign",
  [("yaep.c", "\"repeated declaration of term `%s'\"", "\"terminal `%s' is declared twice\"")])
M("benign-free-tree-default", ["C13", "C16"], "benign",
  [("yaep.c", "  if (parse_free == NULL)\n    {\n      parse_free = parse_free_default;\n    }", "  if (!parse_free)\n    parse_free = parse_free_default;")])

M("r13-revert-F23", ["C04"], "break",
  [("yaep.c", "      if (node->val.anode.cost >= 0)\n	/* The node has been already traversed through another parent.  */\n	break;\n", "")], "traverse_pruned_translation/cost-toggle")

M("r1c-revert-F24", ["C14"], "break",
  [("yaep.c", "      grammar->one_parse_p = saved_one_parse_p;\n      pl_fin ();", "      pl_fin ();")], "grammar.one_parse_p")
M("r15-skip-first-start-situation", ["C09", "C01", "C05", "C06"], "break",
  [("yaep.c", "  for (i = set->core->n_start_sits - 1; i >= 0; i--)\n    {\n      if ((dist = dists[i]) <= 1)", "  for (i = set->core->n_start_sits - 1; i > 0; i--)\n    {\n      if ((dist = dists[i]) <= 1)")], "covers-all-start-situations")
M("r15-benign-ascending-loop", ["C09", "C01", "C05", "C06"], "benign",
  [("yaep.c", "  for (i = set->core->n_start_sits - 1; i >= 0; i--)\n    {\n      if ((dist = dists[i]) <= 1)", "  for (i = 0; i < set->core->n_start_sits; i++)\n    {\n      if ((dist = dists[i]) <= 1)")])

M("r15-compare-cores-only", ["C09", "C01", "C05", "C06"], "break",
  [("yaep.c", "      if (pl[pl_curr + 1 - dist] != pl[place + 1 - dist])", "      if (pl[pl_curr + 1 - dist]->core != pl[place + 1 - dist]->core)")], "compares-sets")
M("t1-order-swapped", ["C02"], "break", [("yaep.c", "		    rule->order[el] = i;", "		    rule->order[i] = el;")], "order[el]=i")
M("t1-nil-not-counted", ["C02"], "break",
  [("yaep.c", "		else if (anode != NULL)\n		  /* Without abstract node `-' means the same as the\n		     empty translation (trans_len == 0): nil node.  */\n		  rule->trans_len++;\n", "")], "trans_len")
M("t1-revert-F25", ["C02"], "break",
  [("yaep.c", "		else if (anode != NULL)\n		  /* Without abstract node `-' means the same as the\n		     empty translation (trans_len == 0): nil node.  */\n		  rule->trans_len++;\n", "		else\n		  rule->trans_len++;\n")],
  "nil-element-counted-only-with-abstract-node")
M("r13-revert-F26", ["C04"], "break",
  [("yaep.c", "  if (grammar->cost_p)\n    /* We can not build minimal tree", "  if (grammar->cost_p && *ambiguous_p)\n    /* We can not build minimal tree")], "costing-whenever-cost-flag")
M("r13-costing-guard-reordered-benign", ["C04"], "benign",
  [("yaep.c", "  if (grammar->cost_p)\n    /* We can not build minimal tree", "  if (grammar->cost_p != 0 && result != NULL && grammar->cost_p)\n    /* We can not build minimal tree")])
M("r13-mark-decode-off-by-one", ["C04"], "break",
  [("yaep.c", "	*cost = -(node->val.anode.cost + 1);", "	*cost = -node->val.anode.cost;")], "mark-codec")
M("t1-start-rule-no-translation", ["C02"], "break", [("yaep.c", "	  rule->order[0] = 0;\n	  rule->trans_len = 1;", "	  rule->trans_len = 1;")], "start-rule-order")
M("c10-fresh-eof-lookup-before-rules", ["C10"], "break",
  [("yaep.c", "  grammar->axiom = grammar->end_marker = NULL;\n  while ((lhs = (*read_rule)", "  grammar->axiom = NULL;\n  grammar->end_marker = symb_find_by_repr (END_MARKER_NAME);\n  while ((lhs = (*read_rule)"),
   ("yaep.c", "	  grammar->end_marker = symb_find_by_repr (END_MARKER_NAME);\n	  if (grammar->end_marker != NULL)", "	  if (grammar->end_marker != NULL)")], "C10-fresh")
M("c10-fresh-direct-test-benign", ["C10"], "benign",
  [("yaep.c", "	  grammar->end_marker = symb_find_by_repr (END_MARKER_NAME);\n	  if (grammar->end_marker != NULL)", "	  if (symb_find_by_repr (END_MARKER_NAME) != NULL)")])
M("c10-fresh-rhs-guard-dropped", ["C10"], "break",
  [("yaep.c", "	  if (symb == NULL)\n	    symb = symb_add_nonterm (*rhs);\n	  else if (symb == grammar->axiom", "	  if (symb == NULL || !symb->term_p)\n	    symb = symb_add_nonterm (*rhs);\n	  else if (symb == grammar->axiom")], "C10-fresh")
M("r16-frontier-state-hop-cost", ["C06", "C07"], "break",
  [("yaep.c", "				   back_to_frontier_move_cost,\n				   back_to_frontier_move_cost);", "				   back_to_frontier_move_cost,\n				   backward_move_cost);")], "R16-frontier-state")
M("r16-frontier-state-local-benign", ["C06", "C07"], "benign",
  [("yaep.c", "	      push_recovery_state (back_pl_frontier,\n				   back_to_frontier_move_cost,\n				   back_to_frontier_move_cost);", "	      {\n		int frontier_cost = back_to_frontier_move_cost;\n\n		push_recovery_state (back_pl_frontier, frontier_cost, frontier_cost);\n	      }")])
M("r4i-mask-in-int", ["C01", "C06", "C12"], "break",
  [("yaep.c", "  bit = ((term_set_el_t) 1) << (num % (CHAR_BIT * sizeof (term_set_el_t)));\n  changed_p", "  bit = 1 << (num % (CHAR_BIT * sizeof (term_set_el_t)));\n  changed_p")], "R4i")
M("r4i-mask-and-form-benign", ["C01", "C06", "C12"], "benign",
  [("yaep.c", "  bit = ((term_set_el_t) 1) << (num % (CHAR_BIT * sizeof (term_set_el_t)));\n  changed_p", "  bit = ((term_set_el_t) 1) << (num & (CHAR_BIT * sizeof (term_set_el_t) - 1));\n  changed_p")])
M("c03-nil-empty-span-test", ["C02", "C03"], "break",
  [("yaep.c", "		}		/* if (sit_rule->anode != NULL) */\n	      else if (sit->pos != 0)", "		}		/* if (sit_rule->anode != NULL) */\n	      else if (sit_orig != pl_ind)")], "C03-nil-empty")
M("c03-nil-empty-rhs-len-benign", ["C02", "C03"], "benign",
  [("yaep.c", "		}		/* if (sit_rule->anode != NULL) */\n	      else if (sit->pos != 0)", "		}		/* if (sit_rule->anode != NULL) */\n	      else if (sit_rule->rhs_len > 0)")])
M("r27-revert-F40-cache-not-emptied", ["C07", "C12"], "break",
  [("yaep.c", "		  empty_hash_table (set_term_lookahead_tab);\n", "")], "R27-goto-valid")
M("r27-goto-valid-flush-after-callback-benign", ["C07", "C12"], "benign",
  [("yaep.c", "#ifdef USE_SET_HASH_TABLE\n		  /* The recovery has replaced sets of the parsing list\n		     and may have moved pl_curr back: the places kept in\n		     the goto cache do not describe the list anymore.  */\n		  empty_hash_table (set_term_lookahead_tab);\n#endif\n", ""),
   ("yaep.c", "				toks[stop].attr);\n		  continue;", "				toks[stop].attr);\n#ifdef USE_SET_HASH_TABLE\n		  empty_hash_table (set_term_lookahead_tab);\n#endif\n		  continue;")])
M("r27-goto-valid-flush-other-table", ["C07", "C12"], "break",
  [("yaep.c", "		  empty_hash_table (set_term_lookahead_tab);\n", "		  empty_hash_table (set_dists_tab);\n")], "R27-goto-valid")
M("r27-hash-same-element-every-round", ["C18"], "break",
  [("yaep.c", "  while (dist_ptr < dist_bound)\n    result = result * hash_shift + *dist_ptr++;\n  set->dists_hash = result;", "  while (dist_ptr < dist_bound)\n    {\n      result = result * hash_shift + *set->dists;\n      dist_ptr++;\n    }\n  set->dists_hash = result;")], "R27-hash")
M("r27-hash-indexed-loop-benign", ["C18"], "benign",
  [("yaep.c", "  while (dist_ptr < dist_bound)\n    result = result * hash_shift + *dist_ptr++;\n  set->dists_hash = result;", "  {\n    int k;\n\n    for (k = 0; k < n_dists; k++)\n      result = result * hash_shift + dist_ptr[k];\n  }\n  set->dists_hash = result;")])
M("r27-hash-goto-key-core-only", ["C18"], "break",
  [("yaep.c", "  return ((set_core_dists_hash (set) * hash_shift\n	   + term->u.term.term_num) * hash_shift + lookahead);", "  return ((set_core_hash (set) * hash_shift\n	   + term->u.term.term_num) * hash_shift + lookahead);")], "R27-hash")
M("r27-hash-goto-key-by-pointer-benign", ["C18"], "benign",
  [("yaep.c", "  return ((set_core_dists_hash (set) * hash_shift\n	   + term->u.term.term_num) * hash_shift + lookahead);", "  return (((unsigned) ((size_t) set >> 4) * hash_shift\n	   + term->u.term.term_num) * hash_shift + lookahead);")])
M("r27-growth-expand-at-half", ["C18"], "break",
  [("hashtab.c", "  if (htab->size / 4 <= htab->number_of_elements / 3)", "  if (htab->size / 2 <= htab->number_of_elements)")], "R27-growth")
M("r27-growth-expand-at-two-thirds-benign", ["C18"], "benign",
  [("hashtab.c", "  if (htab->size / 4 <= htab->number_of_elements / 3)", "  if (htab->size / 3 <= htab->number_of_elements / 2)")])
M("r4j-init-from-requested-row", ["C12", "C09"], "break",
  [("yaep.c", "      context_sit_table_ptr = sit_table + context;\n      ptr = bound - diff / sizeof (struct sit **);", "      ptr = context_sit_table_ptr = sit_table + context;")], "R4j")
M("r4j-init-from-byte-offset-benign", ["C12", "C09"], "benign",
  [("yaep.c", "      ptr = bound - diff / sizeof (struct sit **);", "      ptr = (struct sit ***) ((char *) bound - diff);")])
M("r26-cxx-table-with-other-functions", ["C16"], "break",
  [("yaep.c", "	new hash_table (grammar->alloc, toks_len * 4, reserv_mem_hash,\n			reserv_mem_eq);", "	new hash_table (grammar->alloc, toks_len * 4, trans_visit_node_hash,\n			trans_visit_node_eq);")], "R26")
M("r4k-revert-F41-number-unbounded", ["C12", "C11"], "break",
  [("sgramm.y", "		  if (yylval.num > (INT_MAX - (c - '0')) / 10)\n		    /* The number does not fit into int.  */\n		    yyerror (\"too big number\");\n", "")], "R4k")
M("r4k-bound-before-multiplication-benign", ["C12", "C11"], "benign",
  [("sgramm.y", "		  if (yylval.num > (INT_MAX - (c - '0')) / 10)", "		  if (yylval.num >= INT_MAX / 10 && (yylval.num > INT_MAX / 10 || c - '0' > INT_MAX % 10))")])
M("c11-revert-F42-signed-char-code", ["C11"], "break",
  [("sgramm.y", "	  term.code = (unsigned char) term.repr [1];", "	  term.code = term.repr [1];")], "C11-charcode")
M("c11-charcode-mask-benign", ["C11"], "benign",
  [("sgramm.y", "	  term.code = (unsigned char) term.repr [1];", "	  term.code = *(unsigned char *) (term.repr + 1);")])
M("c11-revert-F43-code-not-free", ["C11"], "break",
  [("sgramm.y", "	  for (j = 0; j < num; j++)\n	    if (arr[j].code == code)\n	      {\n		code++;\n		j = -1;\n	      }\n", "")], "implicit-code-free")
M("c11-free-code-while-form-benign", ["C11"], "benign",
  [("sgramm.y", "	  for (j = 0; j < num; j++)\n	    if (arr[j].code == code)\n	      {\n		code++;\n		j = -1;\n	      }\n", "	  j = 0;\n	  while (j < num)\n	    if (arr[j].code != code)\n	      j++;\n	    else\n	      {\n		code++;\n		j = 0;\n	      }\n")])
M("r4a-local-string-no-terminator", ["C12"], "break",
  [("sgramm.y", "	  strncpy (str, prev->repr, sizeof (str));\n	  str[sizeof (str) - 1] = '\\0';", "	  strncpy (str, prev->repr, sizeof (str) - 1);")], "terminated")
M("r4a-local-string-terminator-first-benign", ["C12"], "benign",
  [("sgramm.y", "	  strncpy (str, prev->repr, sizeof (str));\n	  str[sizeof (str) - 1] = '\\0';", "	  str[sizeof (str) - 1] = '\\0';\n	  strncpy (str, prev->repr, sizeof (str) - 1);")])
M("r24-prime-square-accepted", ["C19", "C16"], "break",
  [("hashtab.c", "      if (i * i > number)\n	return number;", "      if (i * i >= number)\n	return number;")], "R24-prime")
M("r24-prime-negated-form-benign", ["C19", "C16"], "benign",
  [("hashtab.c", "      if (i * i > number)\n	return number;", "      if (!(i * i <= number))\n	return number;")])
M("c10-strict-checks-every-symbol", ["C10"], "break",
  [("yaep.c", "      for (i = 0; (symb = nonterm_get (i)) != NULL; i++)\n	{\n	  if (!symb->derivation_p)", "      for (i = 0; (symb = symb_get (i)) != NULL; i++)\n	{\n	  if (!symb->derivation_p)")], "YAEP_UNACCESSIBLE_NONTERM")
M("r3g-flag-set-after-reading-tokens", ["C14", "C17"], "break",
  [("yaep.c", "  tok_init ();\n  tok_init_p = TRUE;\n  read_toks ();", "  tok_init ();\n  read_toks ();\n  tok_init_p = TRUE;")], "R3g")
M("r3g-counter-reset-between-benign", ["C14", "C17"], "benign",
  [("yaep.c", "  n_goto_successes = 0;\n  tok_init ();\n  tok_init_p = TRUE;", "  tok_init ();\n  n_goto_successes = 0;\n  tok_init_p = TRUE;")])
M("r14-entry-filled-after-second-lookup", ["C12", "C13"], "break",
  [("yaep.c", "	  /* The same node can be mentioned several times and the same\n	     name is used by all nodes of a rule: remember what we have\n	     freed.  */\n	  *entry = (hash_table_entry_t) *node_ptr;\n	  if ((*node_ptr)->type == YAEP_NIL)", "	  if ((*node_ptr)->type == YAEP_NIL)"),
   ("yaep.c", "		  entry\n		    = find_hash_table_entry (reserv_mem_tab,\n					     (*node_ptr)->val.anode.name, TRUE);\n		  if (*entry == NULL)\n		    {\n		      *entry\n			= (hash_table_entry_t) (*node_ptr)->val.anode.name;", "		  hash_table_entry_t *name_entry;\n\n		  name_entry\n		    = find_hash_table_entry (reserv_mem_tab,\n					     (*node_ptr)->val.anode.name, TRUE);\n		  if (*name_entry == NULL)\n		    {\n		      *name_entry\n			= (hash_table_entry_t) (*node_ptr)->val.anode.name;"),
   ("yaep.c", "	      (*parse_free) (*node_ptr);\n	    }\n	}\n      VLO_DELETE (tnodes_vlo);", "	      (*parse_free) (*node_ptr);\n	    }\n	  *entry = (hash_table_entry_t) *node_ptr;\n	}\n      VLO_DELETE (tnodes_vlo);")], "R14-entry")
M("r14-entry-second-variable-benign", ["C12", "C13"], "benign",
  [("yaep.c", "		  entry\n		    = find_hash_table_entry (reserv_mem_tab,\n					     (*node_ptr)->val.anode.name, TRUE);\n		  if (*entry == NULL)\n		    {\n		      *entry\n			= (hash_table_entry_t) (*node_ptr)->val.anode.name;", "		  hash_table_entry_t *name_entry;\n\n		  name_entry\n		    = find_hash_table_entry (reserv_mem_tab,\n					     (*node_ptr)->val.anode.name, TRUE);\n		  if (*name_entry == NULL)\n		    {\n		      *name_entry\n			= (hash_table_entry_t) (*node_ptr)->val.anode.name;")])
M("r4m-revert-F44-short-pos", ["C12"], "break",
  [("yaep.c", "     The rule can be longer than SHRT_MAX symbols.  */\n  int pos;", "     The rule can be longer than SHRT_MAX symbols.  */\n  short pos;")], "R4m")
M("r4o-revert-F45-order-before-test", ["C12"], "break",
  [("yaep.c", "      anode = state->anode;\n      pl_ind = state->pl_ind;\n      orig = state->orig;\n      if (pos < 0)", "      anode = state->anode;\n      disp = rule->order[pos];\n      pl_ind = state->pl_ind;\n      orig = state->orig;\n      if (pos < 0)")], "R4o")
M("r4n-revert-F46-cost-sum-unguarded", ["C12", "C04"], "break",
  [("yaep.c", "	      if (*cost > INT_MAX - node->val.anode.cost)\n		node->val.anode.cost = INT_MAX;\n	      else\n		node->val.anode.cost += *cost;", "	      node->val.anode.cost += *cost;")], "R4n")
M("r4n-guard-other-operand-benign", ["C12", "C04"], "benign",
  [("yaep.c", "	      if (*cost > INT_MAX - node->val.anode.cost)\n		node->val.anode.cost = INT_MAX;\n	      else\n		node->val.anode.cost += *cost;", "	      if (node->val.anode.cost <= INT_MAX - *cost)\n		node->val.anode.cost += *cost;\n	      else\n		node->val.anode.cost = INT_MAX;")])
M("c03-origin-default-hoisted", ["C05", "C03"], "break",
  [("yaep.c", "	  found = FALSE;\n	  for (j = 0; j < check_core_symb_vect->transitions.len; j++)", "	  found = FALSE;\n	  check_sit_orig = sit_orig;\n	  for (j = 0; j < check_core_symb_vect->transitions.len; j++)"),
   ("yaep.c", "		continue;\n	      check_sit_orig = sit_orig;\n	      if (check_sit_ind < check_set_core->n_all_dists)", "		continue;\n	      if (check_sit_ind < check_set_core->n_all_dists)")], "C03-origin-fresh")
M("c03-origin-default-else-benign", ["C05", "C03"], "benign",
  [("yaep.c", "		continue;\n	      check_sit_orig = sit_orig;\n	      if (check_sit_ind < check_set_core->n_all_dists)", "		continue;\n	      if (check_sit_ind >= check_set_core->n_all_dists)\n		check_sit_orig = sit_orig;\n	      if (check_sit_ind < check_set_core->n_all_dists)")])
M("r14-local-base-kept-over-growth", ["C03", "C12"], "break",
  [("yaep.c", "  struct parse_state *table_state, *parent_anode_state;\n", "  struct parse_state *table_state, *parent_anode_state;\n  struct parse_state **states;\n"),
   ("yaep.c", "		      VLO_EXPAND (orig_states, sizeof (struct parse_state *));\n		      ((struct parse_state **) VLO_BOUND (orig_states))[-1]\n			= orig_state;", "		      VLO_EXPAND (orig_states, sizeof (struct parse_state *));\n		      states = (struct parse_state **) VLO_BEGIN (orig_states);\n		      states[0] = orig_state;"),
   ("yaep.c", "		    if (((struct parse_state **)\n			 VLO_BEGIN (orig_states))[j]->pl_ind == sit_orig)", "		    if (states[j]->pl_ind == sit_orig)")], "R14")
M("r14-local-base-retaken-benign", ["C03", "C12"], "benign",
  [("yaep.c", "  struct parse_state *table_state, *parent_anode_state;\n", "  struct parse_state *table_state, *parent_anode_state;\n  struct parse_state **states;\n"),
   ("yaep.c", "		  for (j = (VLO_LENGTH (orig_states)\n			    / sizeof (struct parse_state *) - 1); j >= 0; j--)\n		    if (((struct parse_state **)\n			 VLO_BEGIN (orig_states))[j]->pl_ind == sit_orig)", "		  states = (struct parse_state **) VLO_BEGIN (orig_states);\n		  for (j = (VLO_LENGTH (orig_states)\n			    / sizeof (struct parse_state *) - 1); j >= 0; j--)\n		    if (states[j]->pl_ind == sit_orig)")])
M("c03-state-anode-node-without-state", ["C03"], "break",
  [("yaep.c", "		      curr_state = ((struct parse_state **)\n				    VLO_BEGIN (orig_states))[j];\n		      anode = curr_state->anode;", "		      anode = ((struct parse_state **)\n			       VLO_BEGIN (orig_states))[j]->anode;")], "C03-state-anode")
M("c03-state-anode-two-reads-benign", ["C03"], "benign",
  [("yaep.c", "		      curr_state = ((struct parse_state **)\n				    VLO_BEGIN (orig_states))[j];\n		      anode = curr_state->anode;", "		      anode = ((struct parse_state **)\n			       VLO_BEGIN (orig_states))[j]->anode;\n		      curr_state = ((struct parse_state **)\n				    VLO_BEGIN (orig_states))[j];")])
M("r22-accumulate-context-copied", ["C01", "C09"], "break",
  [("yaep.c", "	term_set_or (sit->lookahead, term_set_from_table (sit->context));\n      return TRUE;", "	term_set_copy (sit->lookahead, term_set_from_table (sit->context));\n      return TRUE;")], "R22-accumulate")
M("r22-accumulate-follow-local-benign", ["C01", "C09"], "benign",
  [("yaep.c", "	term_set_or (sit->lookahead, term_set_from_table (sit->context));\n      return TRUE;", "	{\n	  term_set_el_t *context_set = term_set_from_table (sit->context);\n\n	  term_set_or (sit->lookahead, context_set);\n	}\n      return TRUE;")])
M("r16-hop-tests-new-frontier", ["C07", "C06"], "break",
  [("yaep.c", "	  if (pl[back_pl_frontier]->core->term != grammar->term_error)\n	    backward_move_cost++;", "	  if (pl[pl_curr]->core->term != grammar->term_error)\n	    backward_move_cost++;")], "R16-hop")
M("r16-hop-old-frontier-local-benign", ["C07", "C06"], "benign",
  [("yaep.c", "	  if (pl[back_pl_frontier]->core->term != grammar->term_error)\n	    backward_move_cost++;", "	  {\n	    struct set *old_frontier_set = pl[back_pl_frontier];\n\n	    if (old_frontier_set->core->term != grammar->term_error)\n	      backward_move_cost += 1;\n	  }")])
M("r27-hash-mult-power-of-two", ["C18"], "break",
  [("yaep.c", "static const unsigned hash_shift = 611;", "static const unsigned hash_shift = 1 << 10;")], "R27-hash-mult")
M("r27-hash-mult-other-odd-benign", ["C18"], "benign",
  [("yaep.c", "static const unsigned hash_shift = 611;", "static const unsigned hash_shift = 613;")])
M("c11-lists-right-recursive-alternatives", ["C11"], "break",
  [("sgramm.y", "rhs : rhs '|' alt\n    | alt\n    ;", "rhs : alt\n    | alt '|' rhs\n    ;")], "C11-lists")
M("c11-lists-alternatives-reordered-benign", ["C11"], "benign",
  [("sgramm.y", "rhs : rhs '|' alt\n    | alt\n    ;", "rhs : alt\n    | rhs '|' alt\n    ;")])
M("r4n-revert-F48-mark-negated", ["C12", "C04"], "break",
  [("yaep.c", "      node->val.anode.cost = -(node->val.anode.cost + 1);", "      node->val.anode.cost = -node->val.anode.cost - 1;")], "cost-negated")
M("r4n-mark-decoded-by-complement-benign", ["C12", "C04"], "benign",
  [("yaep.c", "      node->val.anode.cost = -(node->val.anode.cost + 1);", "      node->val.anode.cost = ~node->val.anode.cost;")])
M("c11-revert-F49-number-is-nil", ["C11"], "break",
  [("sgramm.y", "\t    if (symb_num == YAEP_NIL_TRANSLATION_NUMBER)\n\t      symb_num--;\n\t    OS_TOP_ADD_MEMORY", "\t    OS_TOP_ADD_MEMORY")], "C11-nil-number")
M("c11-nil-number-clamp-benign", ["C11"], "benign",
  [("sgramm.y", "\t    if (symb_num == YAEP_NIL_TRANSLATION_NUMBER)\n\t      symb_num--;\n\t    OS_TOP_ADD_MEMORY", "\t    if (symb_num >= YAEP_NIL_TRANSLATION_NUMBER)\n\t      symb_num = YAEP_NIL_TRANSLATION_NUMBER - 1;\n\t    OS_TOP_ADD_MEMORY")])
