"""Confirm a seeded property-breaking change and run the checks against it.

  python3 selftest/seed.py <dir with patch.diff + demo.c|demo.cpp> <seed-id> <Cxx>[,<Cyy>...]

1. scratch copy of /repo (outside /repo and /verif): the 120 baseline tests pass with the
   patch, the demonstration passes without and fails with it;
2. the patch is applied to /repo itself (git apply), the quick checks of the given
   properties run, and the patch is undone straight afterwards (git checkout -- .).
Writes /verif/seeded/<seed-id>/{patch.diff,demo.*,notes.txt,meta.json}."""
import json
import os
import re
import shutil
import subprocess
import sys
import tempfile

VERIF = os.path.dirname(os.path.dirname(os.path.abspath(__file__)))


def sh(cmd, cwd=None, env=None, timeout=900):
    p = subprocess.run(cmd, shell=True, cwd=cwd, env=env, stdout=subprocess.PIPE, stderr=subprocess.STDOUT, universal_newlines=True, timeout=timeout)
    return p.returncode, p.stdout


def build_demo(src, demo, out, workdir):
    flags = "-g %s -fsanitize=address,undefined -fno-omit-frame-pointer -w" % os.environ.get("SEED_OPT", "-O1")
    txt = open(demo).read()
    extra = ""
    for w in re.findall(r"--wrap=(\w+)", txt):
        if ("--wrap=%s " % w) not in extra + " ":
            extra += " -Wl,--wrap=%s" % w
    sh("bison -o %s/sgramm.c %s/sgramm.y" % (workdir, src))
    objs = []
    cxx = demo.endswith(".cpp") or demo.endswith(".cc")
    units = ["allocate.c"] + (["hashtab.cpp", "objstack.cpp", "vlobject.cpp", "yaep.cpp"] if cxx else ["hashtab.c", "objstack.c", "vlobject.c", "yaep.c"])
    for u in units:
        o = os.path.join(workdir, u.replace(".", "_") + ".o")
        cc = "g++ -std=gnu++11" if u.endswith(".cpp") else "gcc -std=gnu90"
        rc, outp = sh("%s %s -I%s -I%s -c %s/%s -o %s" % (cc, flags, workdir, src, src, u, o))
        if rc:
            return rc, outp
        objs.append(o)
    cc = "g++ -std=gnu++11" if cxx else "gcc"
    return sh("%s %s -I%s -I%s %s %s -o %s %s" % (cc, flags, src, workdir, demo, " ".join(objs), out, extra))


def main(argv):
    sdir, sid, props = argv[1], argv[2], argv[3].split(",")
    demo = [x for x in os.listdir(sdir) if x.startswith("demo.")]
    demo = os.path.join(sdir, demo[0])
    patch = os.path.join(sdir, "patch.diff")
    tmp = tempfile.mkdtemp(prefix="yaep-seed-")
    rebased = None
    meta = {"seed": sid, "properties": props, "ran": [], "applies": True}
    try:
        # scratch copies
        for variant in ("orig", "patched"):
            d = os.path.join(tmp, variant)
            sh("git -C /repo worktree add --detach %s HEAD" % d)
            if variant == "patched":
                rc, out = sh("git apply %s" % patch, cwd=d)
                if rc:
                    # /repo moved on (a repair nearby): re-apply with fuzz and keep the refreshed patch
                    rc2, out2 = sh("patch -p1 -F3 --no-backup-if-mismatch < %s" % patch, cwd=d)
                    if rc2:
                        print("patch does not apply to /repo HEAD:\n" + out + out2)
                        mp_ = os.path.join(VERIF, "seeded", sid, "meta.json")
                        if os.path.exists(mp_):
                            o_ = json.load(open(mp_))
                            o_["applies"] = False
                            json.dump(o_, open(mp_, "w"), indent=1)
                        return 3
                    rc3, newdiff = sh("git diff", cwd=d)
                    patch = os.path.join(tmp, "rebased.diff")
                    open(patch, "w").write(newdiff)
                    rebased = newdiff
                    print("patch re-applied with fuzz (rebased on the current HEAD)")
            os.makedirs(os.path.join(d, "w"))
            rc, out = build_demo(os.path.join(d, "src"), demo, os.path.join(d, "w", "demo"), os.path.join(d, "w"))
            if rc:
                print("demo build failed (%s):\n%s" % (variant, out[-2000:]))
                return 3
            env = dict(os.environ, ASAN_OPTIONS="detect_leaks=0")
            rc, out = sh(os.path.join(d, "w", "demo"), env=env, timeout=120)
            meta["demo_" + variant] = {"exit": rc, "tail": out[-600:]}
            print("demo on %s: exit %d" % (variant, rc))
        # baseline tests with the patch
        d = os.path.join(tmp, "patched")
        rc, out = sh("cmake -G Ninja -B build -DCMAKE_BUILD_TYPE=Release > /dev/null && (ninja -C build -k 0 > /dev/null 2>&1; ninja -C build -k 0 > /dev/null 2>&1; true) && ctest --test-dir build -j16 -R 'yaep(\\+\\+)?-test' 2>&1 | tail -4", cwd=d)
        m = re.search(r"(\d+)% tests passed, (\d+) tests failed out of (\d+)", out)
        meta["baseline_with_patch"] = m.group(0) if m else out[-300:]
        print("baseline tests with the patch:", meta["baseline_with_patch"])
        ok_seed = meta["demo_orig"]["exit"] == 0 and meta["demo_patched"]["exit"] != 0 and m and m.group(2) == "0" and m.group(3) == "120"
        meta["confirmed"] = bool(ok_seed)
        print("seed confirmed:", ok_seed)
        if os.environ.get("SEED_SCRATCH"):
            run_checks(props, meta, dict(os.environ, VERIF_REPO=os.path.join(tmp, "patched")))
    finally:
        for variant in ("orig", "patched"):
            sh("git -C /repo worktree remove --force %s" % os.path.join(tmp, variant))
        if rebased is None:
            shutil.rmtree(tmp, ignore_errors=True)
    if not os.environ.get("SEED_SCRATCH"):
        # run the checks against /repo with the patch applied
        rc, out = sh("git -C /repo status --porcelain --untracked-files=no")
        if out.strip():
            print("/repo has uncommitted changes; not applying the seed")
            return 3
        rc, out = sh("git -C /repo apply %s" % patch)
        try:
            run_checks(props, meta, dict(os.environ))
        finally:
            sh("git -C /repo checkout -- .")
    meta["detected_by"] = [r["check"].split()[-1] for r in meta["ran"] if r["exit"] == 1]
    dst = os.path.join(VERIF, "seeded", sid)
    os.makedirs(dst, exist_ok=True)
    for fn in os.listdir(sdir):
        if (fn in ("patch.diff", "notes.txt") or fn.startswith("demo.")) and os.path.abspath(sdir) != os.path.abspath(dst):
            shutil.copy(os.path.join(sdir, fn), os.path.join(dst, fn))
    if rebased is not None:
        open(os.path.join(dst, "patch.diff"), "w").write(rebased)
        shutil.rmtree(tmp, ignore_errors=True)
    old = {}
    mp = os.path.join(dst, "meta.json")
    if os.path.exists(mp):
        old = json.load(open(mp))
    old.update(meta)
    json.dump(old, open(mp, "w"), indent=1)
    return 0


def run_checks(props, meta, base_env):
    if True:
        evd = tempfile.mkdtemp(prefix="yaep-seed-ev-")
        for pr in props:
            env = dict(base_env, VERIF_EVIDENCE_DIR=evd)
            rc, out = sh("python3 -m sa.check %s" % pr, cwd=VERIF, env=env)
            lines = [l for l in out.splitlines() if l.startswith(("VIOLATION", "  rule", "ANALYSIS", pr + ":"))]
            meta["ran"].append({"check": "python3 -m sa.check " + pr, "exit": rc, "output": lines[:12]})
            print("check %s: exit %d" % (pr, rc))
            for l in lines[:6]:
                print("   " + l)
        shutil.rmtree(evd, ignore_errors=True)


if __name__ == "__main__":
    sys.exit(main(sys.argv))
