"""interactive helper:  python3 -i selftest/dbg.py   ->  pc, px (Prog of c-lib / cxx-lib)"""
import sys, os
sys.path.insert(0, os.path.dirname(os.path.dirname(os.path.abspath(__file__))))
from sa.check import Ctx, Workspace
from sa.model import *
from sa import expr
ws = Workspace()
ctx = Ctx(ws, "quick")
pc = ctx.prog("c-lib")
