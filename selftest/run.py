"""Mutation self-test of the checkers (analysis only -- nothing from /repo is executed).

Each mutant is a symbol-anchored textual edit of a scratch copy of /repo/src
(outside /repo and /verif, removed afterwards).  `break' mutants must make the
named check exit 1 and name the expected instance; `benign' mutants (behaviour
preserving edits) must leave it silent.

  python3 selftest/run.py [--prop Cxx] [--id substring] [-j N]
"""
import json
import os
import shutil
import subprocess
import sys
import tempfile
from concurrent.futures import ThreadPoolExecutor

HERE = os.path.dirname(os.path.abspath(__file__))
VERIF = os.path.dirname(HERE)
sys.path.insert(0, HERE)
sys.path.insert(0, VERIF)
from mutants import MUTANTS  # noqa


def apply_edits(srcdir, edits):
    """anchors are whitespace-insensitive: every run of blanks/tabs/newlines in `old' matches any such run"""
    import re
    for (fn, old, new) in edits:
        p = os.path.join(srcdir, fn)
        s = open(p).read()
        parts = [re.escape(x) for x in re.split(r"\s+", old.strip())]
        rx = re.compile(r"\s+".join(parts))
        found = rx.findall(s)
        if len(found) != 1:
            return "anchor for %s occurs %d times in %s" % (repr(old[:50]), len(found), fn)
        lead = old[: len(old) - len(old.lstrip())]
        trail = old[len(old.rstrip()):]
        s = rx.sub(lambda m_: new[len(lead):len(new) - len(trail)] if (new.startswith(lead) and (not trail or new.endswith(trail))) else new, s, count=1)
        open(p, "w").write(s)
    return None


def run_one(mu):
    tmp = tempfile.mkdtemp(prefix="yaep-mut-")
    try:
        shutil.copytree("/repo/src", os.path.join(tmp, "src"))
        err = apply_edits(os.path.join(tmp, "src"), mu["edits"])
        if err:
            return (mu, "STALE", err)
        if mu.get("compile_check", True):
            pass
        res = []
        from sa.props import PROPS
        for prop in mu["props"]:
            if prop not in PROPS:
                continue
            env = dict(os.environ)
            env["VERIF_REPO"] = tmp
            env["VERIF_EVIDENCE_DIR"] = os.path.join(tmp, "ev")
            os.makedirs(env["VERIF_EVIDENCE_DIR"], exist_ok=True)
            p = subprocess.run([sys.executable, "-m", "sa.check", prop], cwd=VERIF, env=env, stdout=subprocess.PIPE, stderr=subprocess.STDOUT, universal_newlines=True)
            out = p.stdout
            if mu["kind"] == "break":
                ok = p.returncode == 1 and "VIOLATION property=%s" % prop in out and (mu.get("expect", "") in out)
            else:
                ok = p.returncode == 0 and "VIOLATION" not in out
            res.append((prop, ok, p.returncode, out))
        bad = [r for r in res if not r[1]]
        if bad:
            return (mu, "FAIL", "\n".join("[%s rc=%d]\n%s" % (r[0], r[2], r[3][-1500:]) for r in bad))
        return (mu, "ok", "")
    finally:
        shutil.rmtree(tmp, ignore_errors=True)


def main(argv):
    sel = MUTANTS
    if "--prop" in argv:
        pr = argv[argv.index("--prop") + 1]
        sel = [dict(m, props=[pr]) for m in sel if pr in m["props"]]
    if "--id" in argv:
        s = argv[argv.index("--id") + 1]
        sel = [m for m in sel if s in m["id"]]
    j = int(argv[argv.index("-j") + 1]) if "-j" in argv else 12
    fails = 0
    with ThreadPoolExecutor(max_workers=j) as ex:
        for (mu, st, msg) in ex.map(run_one, sel):
            print("%-6s %-7s %-40s %s" % (st, mu["kind"], mu["id"], ",".join(mu["props"])))
            if st != "ok":
                fails += 1
                print("    " + msg.replace("\n", "\n    "))
    print("%d mutants, %d not as expected" % (len(sel), fails))
    return 1 if fails else 0


if __name__ == "__main__":
    sys.exit(main(sys.argv))
