"""Re-run every seeded change under /verif/seeded against the current /repo HEAD and the current checks.
   python3 selftest/all_seeds.py        (prints one line per seed; refreshes meta.json)"""
import json
import os
import subprocess
import sys

VERIF = os.path.dirname(os.path.dirname(os.path.abspath(__file__)))
root = os.path.join(VERIF, "seeded")
rows = []
for d in sorted(os.listdir(root)):
    mp = os.path.join(root, d, "meta.json")
    if not os.path.exists(mp):
        continue
    m = json.load(open(mp))
    props = ",".join(m.get("properties", []))
    p = subprocess.run([sys.executable, os.path.join(VERIF, "selftest", "seed.py"), os.path.join(root, d), d, props], cwd=VERIF, stdout=subprocess.PIPE, stderr=subprocess.STDOUT, universal_newlines=True)
    m = json.load(open(mp))
    rows.append((d, m.get("applies", True), m.get("confirmed"), m.get("detected_by")))
    print("%-42s %s confirmed=%s detected_by=%s" % (d, "" if m.get("applies", True) else "(patch no longer applies)", m.get("confirmed"), m.get("detected_by")))
print("%d seeds, %d detected" % (len(rows), len([r for r in rows if r[3]])))
