"""Re-run only the checks (not the demonstration, not the test suite) for seeds that were confirmed before.

  python3 selftest/recheck.py [--props C11,C12] <seed-id>...      (--all: every seed; --missed: seeds with an empty detected_by)

The patch is applied to a scratch copy of /repo's HEAD; meta.json gets the new `ran' / `detected_by'."""
import json
import os
import shutil
import subprocess
import sys
import tempfile
from concurrent.futures import ThreadPoolExecutor

VERIF = os.path.dirname(os.path.dirname(os.path.abspath(__file__)))


def sh(cmd, cwd=None, env=None):
    p = subprocess.run(cmd, shell=True, cwd=cwd, env=env, stdout=subprocess.PIPE, stderr=subprocess.STDOUT, universal_newlines=True)
    return p.returncode, p.stdout


def one(sid, extra):
    d = os.path.join(VERIF, "seeded", sid)
    mp = os.path.join(d, "meta.json")
    meta = json.load(open(mp))
    props = list(meta.get("properties", []))
    for e in extra:
        if e not in props:
            props.append(e)
    tmp = tempfile.mkdtemp(prefix="yaep-recheck-")
    try:
        sh("git -C /repo archive HEAD | tar -x -C %s" % tmp)
        rc, out = sh("patch -s -p1 -F3 --no-backup-if-mismatch < %s" % os.path.join(d, "patch.diff"), cwd=tmp)
        if rc:
            meta["applies"] = False
            json.dump(meta, open(mp, "w"), indent=1)
            return sid, "patch does not apply"
        ran = []
        for pr in props:
            env = dict(os.environ, VERIF_REPO=tmp, VERIF_EVIDENCE_DIR=os.path.join(tmp, ".ev"))
            rc, out = sh("%s -m sa.check %s" % (sys.executable, pr), cwd=VERIF, env=env)
            lines = [l.replace(tmp, "<scratch>") for l in out.splitlines() if l.startswith(("VIOLATION", "  rule", "ANALYSIS", pr + ":"))]
            ran.append({"check": "python3 -m sa.check " + pr, "exit": rc, "output": lines[:12]})
        meta["ran"] = ran
        meta["properties"] = props
        meta["applies"] = True
        meta["detected_by"] = [r["check"].split()[-1] for r in ran if r["exit"] == 1]
        json.dump(meta, open(mp, "w"), indent=1)
        return sid, "detected_by=%s%s" % (meta["detected_by"], "" if meta["detected_by"] else "  exits=%s" % [r["exit"] for r in ran])
    finally:
        shutil.rmtree(tmp, ignore_errors=True)


def main(argv):
    extra = []
    args = argv[1:]
    if args and args[0] == "--props":
        extra = args[1].split(",")
        args = args[2:]
    root = os.path.join(VERIF, "seeded")
    if args == ["--all"]:
        args = sorted(os.listdir(root))
    elif args == ["--missed"]:
        args = [s for s in sorted(os.listdir(root)) if not json.load(open(os.path.join(root, s, "meta.json"))).get("detected_by")]
    with ThreadPoolExecutor(max_workers=6) as ex:
        res = list(ex.map(lambda s: one(s, extra), args))
    for sid, r in res:
        print("%-48s %s" % (sid, r))
    print("%d seeds, %d detected" % (len(res), len([1 for _, r in res if r.startswith("detected_by=['")])))


if __name__ == "__main__":
    main(sys.argv)
