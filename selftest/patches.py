"""Second part of the checker self-test (analysis only): the patches kept under /verif/seeded (property-breaking changes made by
independent sub-agents, each confirmed once against the real library) and /verif/benign (behaviour-preserving edits).

  python3 selftest/patches.py --prop Cxx [-j N]

For the given property: every seeded change whose meta.json lists the property under detected_by must make the quick check exit 1;
every benign edit must leave it at exit 0.  Patches are applied with patch(1) to a scratch copy of /repo/src (outside /repo and
/verif, removed afterwards); a patch that does not apply to the current tree is skipped (the tree has moved on)."""
import json
import os
import shutil
import subprocess
import sys
import tempfile
from concurrent.futures import ThreadPoolExecutor

HERE = os.path.dirname(os.path.abspath(__file__))
VERIF = os.path.dirname(HERE)


def run_one(job):
    kind, name, patch, prop = job
    tmp = tempfile.mkdtemp(prefix="yaep-pat-")
    try:
        shutil.copytree("/repo/src", os.path.join(tmp, "src"))
        p = subprocess.run("patch -p1 -s -F3 --no-backup-if-mismatch < %s" % patch, shell=True, cwd=tmp, stdout=subprocess.PIPE, stderr=subprocess.STDOUT, universal_newlines=True)
        if p.returncode:
            return (kind, name, "skip", "patch does not apply to the current tree")
        env = dict(os.environ, VERIF_REPO=tmp, VERIF_EVIDENCE_DIR=os.path.join(tmp, "ev"))
        os.makedirs(env["VERIF_EVIDENCE_DIR"], exist_ok=True)
        q = subprocess.run([sys.executable, "-m", "sa.check", prop], cwd=VERIF, env=env, stdout=subprocess.PIPE, stderr=subprocess.STDOUT, universal_newlines=True)
        if kind == "seed":
            ok = q.returncode == 1 and "VIOLATION property=%s" % prop in q.stdout
        else:
            ok = q.returncode == 0 and "VIOLATION" not in q.stdout
        return (kind, name, "ok" if ok else "FAIL", "" if ok else "[rc=%d] %s" % (q.returncode, " | ".join(l for l in q.stdout.splitlines() if l.startswith(("VIOLATION", "  rule", "ANALYSIS")))[:600]))
    finally:
        shutil.rmtree(tmp, ignore_errors=True)


def main(argv):
    prop = argv[argv.index("--prop") + 1]
    j = int(argv[argv.index("-j") + 1]) if "-j" in argv else 12
    jobs = []
    sroot = os.path.join(VERIF, "seeded")
    for d in sorted(os.listdir(sroot)) if os.path.isdir(sroot) else []:
        mp = os.path.join(sroot, d, "meta.json")
        pf = os.path.join(sroot, d, "patch.diff")
        if os.path.exists(mp) and os.path.exists(pf):
            m = json.load(open(mp))
            if prop in (m.get("detected_by") or []) and m.get("confirmed"):
                jobs.append(("seed", d, pf, prop))
    broot = os.path.join(VERIF, "benign")
    for d in sorted(os.listdir(broot)) if os.path.isdir(broot) else []:
        pf = os.path.join(broot, d, "patch.diff")
        if os.path.exists(pf):
            jobs.append(("benign", d, pf, prop))
    bad = 0
    with ThreadPoolExecutor(max_workers=j) as ex:
        for (kind, name, st, msg) in ex.map(run_one, jobs):
            print("%-5s %-7s %s %s" % (st, kind, name, msg))
            bad += st == "FAIL"
    print("%d patches, %d not as expected" % (len(jobs), bad))
    return 1 if bad else 0


if __name__ == "__main__":
    sys.exit(main(sys.argv))
