#!/bin/sh
# usage: try_patch.sh <patch> <prop>...   -- run quick checks against a scratch copy of /repo with the patch (evidence goes to a scratch directory)
P=$1; shift
D=$(mktemp -d /tmp/yaep-try-XXXXXX)
git -C /repo archive HEAD | tar -x -C $D
(cd $D && patch -s -p1 -F3 < $P) || { echo "patch does not apply"; rm -rf $D; exit 3; }
mkdir -p $D/.ev
for c in "$@"; do (cd /verif && VERIF_REPO=$D VERIF_EVIDENCE_DIR=$D/.ev python3 -m sa.check $c 2>&1 | tail -4); done
rm -rf $D
